//! scalar leaf decoders of the real codec on arbitrary bytes (C07/C14 part 3) and Rust twins of mirsym's codec-primitive models
use crate::{v14, FixedOut};
use scale::{Compact, Decode, Encode};
use scale_info::{form::PortableForm, interner::UntrackedSymbol, *};

type Sym = UntrackedSymbol<core::any::TypeId>;

/// twin of mirsym.codec_models.dec_compact_u32: (value, consumed) or None; canonical form required
fn model_compact(b: &[u8]) -> Option<(u32, usize)> {
    if b.is_empty() { return None; }
    let b0 = b[0];
    match b0 & 3 {
        0 => Some(((b0 >> 2) as u32, 1)),
        1 => { if b.len() < 2 { return None; } let v = (u16::from_le_bytes([b0, b[1]]) >> 2) as u32; if v > 63 { Some((v, 2)) } else { None } }
        2 => { if b.len() < 4 { return None; } let v = u32::from_le_bytes([b0, b[1], b[2], b[3]]) >> 2; if v > 16383 { Some((v, 4)) } else { None } }
        _ => { if b0 != 3 || b.len() < 5 { return None; } let v = u32::from_le_bytes([b[1], b[2], b[3], b[4]]); if v > (1 << 30) - 1 { Some((v, 5)) } else { None } }
    }
}

#[kani::proof]
#[kani::unwind(8)]
fn leaf_compact_u32() {
    let buf: [u8; 5] = kani::any();
    let len: usize = kani::any(); kani::assume(len <= 5);
    let mut inp: &[u8] = &buf[..len];
    let r = Compact::<u32>::decode(&mut inp);
    let used = len - inp.len();
    match (r, model_compact(&buf[..len])) {
        (Ok(Compact(v)), Some((mv, mu))) => {
            assert!(v == mv && used == mu);
            let mut o = FixedOut::<8>::new(); Compact(v).encode_to(&mut o);
            assert!(o.n == used);
            let mut i = 0; while i < 5 { if i < used { assert!(o.buf[i] == buf[i]); } i += 1; }
        }
        (Err(_), None) => {}
        _ => assert!(false),
    }
    kani::cover!(used == 5); kani::cover!(used == 1);
}

fn canonical<T: Decode + Encode, const N: usize>(buf: [u8; N], len: usize) {
    let mut inp: &[u8] = &buf[..len];
    if let Ok(v) = T::decode(&mut inp) {
        let used = len - inp.len();
        let mut o = FixedOut::<N>::new(); v.encode_to(&mut o);
        assert!(o.n == used);
        let mut i = 0; while i < N { if i < used { assert!(o.buf[i] == buf[i]); } i += 1; }
        kani::cover!(used == len);
    }
}

#[kani::proof]
#[kani::unwind(12)]
fn leaf_symbol() { let len: usize = kani::any(); kani::assume(len <= 6); canonical::<Sym, 6>(kani::any(), len); }

#[kani::proof]
#[kani::unwind(12)]
fn leaf_array() { let len: usize = kani::any(); kani::assume(len <= 9); canonical::<TypeDefArray<PortableForm>, 9>(kani::any(), len); }

#[kani::proof]
#[kani::unwind(14)]
fn leaf_bitsequence() { let len: usize = kani::any(); kani::assume(len <= 10); canonical::<TypeDefBitSequence<PortableForm>, 10>(kani::any(), len); }

#[kani::proof]
#[kani::unwind(8)]
fn leaf_primitive() {
    let len: usize = kani::any(); kani::assume(len <= 2);
    let buf: [u8; 2] = kani::any();
    let mut inp: &[u8] = &buf[..len];
    match TypeDefPrimitive::decode(&mut inp) {
        Ok(p) => { assert!(len >= 1 && buf[0] < 15 && v14::prim_index(&p) == buf[0] && inp.len() == len - 1); }
        Err(_) => { assert!(len == 0 || buf[0] >= 15); }
    }
}

#[kani::proof]
#[kani::unwind(12)]
fn leaf_sequence_compact() {
    let len: usize = kani::any(); kani::assume(len <= 6);
    let buf: [u8; 6] = kani::any();
    canonical::<TypeDefSequence<PortableForm>, 6>(buf, len);
    canonical::<TypeDefCompact<PortableForm>, 6>(buf, len);
}

#[kani::proof]
#[kani::unwind(12)]
fn leaf_option_symbol() {
    // the shape of TypeParameter.ty: tag 0 | 1 + compact id; other tags are errors
    let len: usize = kani::any(); kani::assume(len <= 6);
    let buf: [u8; 6] = kani::any();
    let mut inp: &[u8] = &buf[..len];
    let r = Option::<Sym>::decode(&mut inp);
    if len >= 1 && buf[0] > 1 { assert!(r.is_err()); }
    if len >= 1 && buf[0] == 0 { assert!(matches!(r, Ok(None)) && inp.len() == len - 1); }
    if let Ok(Some(sy)) = r { let m = model_compact(&buf[1..len]); assert!(buf[0] == 1 && m.is_some() && m.unwrap().0 == sy.id); }
    canonical::<Option<Sym>, 6>(buf, len);
}

#[kani::proof]
#[kani::unwind(8)]
fn leaf_u32_u8() {
    let buf: [u8; 4] = kani::any();
    let len: usize = kani::any(); kani::assume(len <= 4);
    let mut inp: &[u8] = &buf[..len];
    match u32::decode(&mut inp) { Ok(v) => assert!(len == 4 && v == u32::from_le_bytes(buf)), Err(_) => assert!(len < 4) }
    let mut inp: &[u8] = &buf[..len];
    match u8::decode(&mut inp) { Ok(v) => assert!(len >= 1 && v == buf[0]), Err(_) => assert!(len == 0) }
}
