//! reader over the encoded bytes and leaf accumulator used by the generated schema-directed decoders (C03/C04)
pub struct Rd<'a> { pub b: &'a [u8], pub n: usize, pub p: usize, pub ok: bool }
impl<'a> Rd<'a> {
    pub fn u8(&mut self) -> u8 { if self.p < self.n && self.p < self.b.len() { let x = self.b[self.p]; self.p += 1; x } else { self.ok = false; 0 } }
    /// little-endian unsigned integer of k <= 8 bytes
    pub fn le(&mut self, k: usize) -> u64 { let mut v: u64 = 0; let mut i = 0; while i < k { v |= (self.u8() as u64) << (8 * i); i += 1; } v }
    pub fn boolean(&mut self) -> u64 { let x = self.u8(); if x > 1 { self.ok = false; } x as u64 }
    /// SCALE compact integer (values up to 2^64-1)
    pub fn compact(&mut self) -> u64 {
        let b0 = self.u8();
        match b0 & 3 {
            0 => (b0 >> 2) as u64,
            1 => { let b1 = self.u8(); (((b1 as u64) << 8) | b0 as u64) >> 2 }
            2 => { let b1 = self.u8(); let b2 = self.u8(); let b3 = self.u8(); (((b3 as u64) << 24) | ((b2 as u64) << 16) | ((b1 as u64) << 8) | b0 as u64) >> 2 }
            _ => { let k = (b0 >> 2) as usize + 4; if k > 8 { self.ok = false; 0 } else { self.le(k) } }
        }
    }
}
pub const NL: usize = 48;
/// k: kind of an integer leaf (bytes * 2 + signed), 0 for everything else
pub struct Leaves { pub n: usize, pub v: [u64; NL], pub k: [u8; NL], pub skipped: bool }
impl Leaves {
    pub fn new() -> Self { Leaves { n: 0, v: [0; NL], k: [0; NL], skipped: false } }
    pub fn push(&mut self, x: u64) { if self.n < NL { self.v[self.n] = x; } self.n += 1; }
    pub fn push_int(&mut self, x: u64, kind: u8) { if self.n < NL { self.v[self.n] = x; self.k[self.n] = kind; } self.n += 1; }
    pub fn same(&self, o: &Leaves) { assert!(self.n == o.n); assert!(self.n <= NL); let mut i = 0; while i < NL { if i < self.n { assert!(self.v[i] == o.v[i]); assert!(self.k[i] == o.k[i]); } i += 1; } }
}

/// value source for the native replay of generated harnesses: boundary-heavy pseudo-random integers
pub struct Gen { s: u64 }
impl Gen {
    pub fn new(seed: u64) -> Self { Gen { s: seed.wrapping_mul(0x9E3779B97F4A7C15) | 1 } }
    pub fn int(&mut self) -> u64 {
        self.s ^= self.s << 13; self.s ^= self.s >> 7; self.s ^= self.s << 17;
        const B: [u64; 12] = [0, 1, 63, 64, 255, 16383, 16384, (1 << 30) - 1, 1 << 30, u32::MAX as u64, (u32::MAX as u64) + 1, u64::MAX];
        if self.s & 3 == 0 { B[((self.s >> 8) % 12) as usize] } else { self.s >> 3 }
    }
}
