//! Engine K: Kani proof harnesses over the compiled crate (real parity-scale-codec).
//! C06: the library's SCALE encoding of every registry node == reference encoder written from the layout text, for all scalar contents.
//! C07/C14 leaves: scalar decoders of the real codec on arbitrary bytes: no panic, canonical; and == the Rust twins of mirsym's codec-primitive models.
#![allow(unused)]

#[path = "../../replay/src/v14.rs"]
mod v14;

pub mod corpus_c03;
pub mod dec;
pub mod c03_gen;
pub mod corpus_c04;
pub mod c04_gen;
#[cfg(kani)]
mod c06;
#[cfg(kani)]
mod leaves;

/// fixed-capacity output: harness-side `scale::Output` and reference `Sink` (Vec<u8> is out of CBMC's reach, DESIGN.md P13)
pub struct FixedOut<const N: usize> { pub buf: [u8; N], pub n: usize }
impl<const N: usize> FixedOut<N> { pub fn new() -> Self { FixedOut { buf: [0; N], n: 0 } } }
impl<const N: usize> scale::Output for FixedOut<N> {
    fn write(&mut self, bytes: &[u8]) { let mut i = 0; while i < bytes.len() { if self.n < N { self.buf[self.n] = bytes[i]; } self.n += 1; i += 1; } }
}
impl<const N: usize> v14::Sink for FixedOut<N> {
    fn push(&mut self, b: u8) { if self.n < N { self.buf[self.n] = b; } self.n += 1; }
}
