use crate::{v14, FixedOut};
use scale::Encode;
use scale_info::{form::PortableForm, interner::UntrackedSymbol, *};

type Sym = UntrackedSymbol<core::any::TypeId>;
fn sym(id: u32) -> Sym { id.into() }

fn same<const N: usize>(a: &FixedOut<N>, b: &FixedOut<N>) {
    assert!(a.n == b.n);
    assert!(a.n <= N);
    let mut i = 0;
    while i < N { if i < a.n { assert!(a.buf[i] == b.buf[i]); } i += 1; }
}

fn any_prim() -> TypeDefPrimitive { let k: u8 = kani::any(); kani::assume(k < 15); v14::prim_of(k).unwrap() }
fn s(n: u8) -> String { match n { 0 => String::new(), 1 => String::from("a"), _ => String::from("Zq") } }
fn any_s() -> String { let n: u8 = kani::any(); kani::assume(n < 3); s(n) }
fn any_opt_s() -> Option<String> { if kani::any() { Some(any_s()) } else { None } }
fn any_docs() -> Vec<String> { if kani::any() { vec![any_s()] } else { vec![] } }
fn any_field() -> Field<PortableForm> { Field::new(any_opt_s(), sym(kani::any()), any_opt_s(), any_docs()) }

#[kani::proof]
#[kani::unwind(11)]
fn c06_symbol() {
    // compact id over the full u32 range: all four size classes and their boundaries
    let id: u32 = kani::any();
    let v = sym(id);
    let mut a = FixedOut::<8>::new(); v.encode_to(&mut a);
    let mut b = FixedOut::<8>::new(); v14::compact(&mut b, id);
    same(&a, &b);
    kani::cover!(a.n == 1); kani::cover!(a.n == 2); kani::cover!(a.n == 4); kani::cover!(a.n == 5);
}

fn typedef_same(d: TypeDef<PortableForm>) {
    let mut a = FixedOut::<12>::new(); d.encode_to(&mut a);
    let mut b = FixedOut::<12>::new(); v14::encode_typedef(&mut b, &d);
    same(&a, &b);
}
// every definition kind without vectors, one harness per kind: tag byte, then payload
#[kani::proof]
#[kani::unwind(15)]
fn c06_def_sequence() { typedef_same(TypeDefSequence::new(sym(kani::any())).into()); }
#[kani::proof]
#[kani::unwind(15)]
fn c06_def_array() { typedef_same(TypeDefArray::new(kani::any(), sym(kani::any())).into()); }      // raw LE u32 length, then compact id
#[kani::proof]
#[kani::unwind(15)]
fn c06_def_primitive() { typedef_same(any_prim().into()); }                                          // 0..14 in the documented order
#[kani::proof]
#[kani::unwind(15)]
fn c06_def_compact() { typedef_same(TypeDefCompact::new(sym(kani::any())).into()); }
#[kani::proof]
#[kani::unwind(15)]
fn c06_def_bitsequence() { typedef_same(TypeDefBitSequence::new_portable(sym(kani::any()), sym(kani::any())).into()); }   // store id, then order id

// ---- nodes with strings / vectors: shapes are concrete (one harness per shape), every scalar is symbolic
fn field_same(f: Field<PortableForm>) {
    let mut a = FixedOut::<24>::new(); f.encode_to(&mut a);
    let mut b = FixedOut::<24>::new(); v14::field(&mut b, &f);
    same(&a, &b);
    core::mem::forget(f);
}
macro_rules! field_harness { ($n:ident, $name:expr, $tn:expr, $docs:expr) => {
    #[kani::proof]
    #[kani::unwind(28)]
    fn $n() { field_same(Field::new($name, sym(kani::any()), $tn, $docs)); }
} }
field_harness!(c06_field_none_none, None, None, vec![]);
field_harness!(c06_field_some_none, Some(s(1)), None, vec![s(2)]);
field_harness!(c06_field_none_some, None, Some(s(2)), vec![]);
field_harness!(c06_field_some_some, Some(s(2)), Some(s(1)), vec![s(1), s(0)]);

#[kani::proof]
#[kani::unwind(28)]
fn c06_param_some() {
    let p = TypeParameter::<PortableForm>::new_portable(s(2), Some(sym(kani::any())));
    let mut a = FixedOut::<12>::new(); p.encode_to(&mut a);
    let mut b = FixedOut::<12>::new(); v14::param(&mut b, &p);
    same(&a, &b); core::mem::forget(p);
}
#[kani::proof]
#[kani::unwind(28)]
fn c06_param_none() {
    let p = TypeParameter::<PortableForm>::new_portable(s(1), None);
    let mut a = FixedOut::<12>::new(); p.encode_to(&mut a);
    let mut b = FixedOut::<12>::new(); v14::param(&mut b, &p);
    same(&a, &b); core::mem::forget(p);
}

#[kani::proof]
#[kani::unwind(36)]
fn c06_variant() {
    // name, fields, u8 index, docs - in this order
    let v = Variant::<PortableForm>::new(s(2), vec![Field::new(Some(s(1)), sym(kani::any()), None, vec![])], kani::any(), vec![s(1)]);
    let mut a = FixedOut::<32>::new(); v.encode_to(&mut a);
    let mut b = FixedOut::<32>::new(); v14::variant(&mut b, &v);
    same(&a, &b); core::mem::forget(v);
}

fn typedef_same32(d: TypeDef<PortableForm>) {
    let mut a = FixedOut::<32>::new(); d.encode_to(&mut a);
    let mut b = FixedOut::<32>::new(); v14::encode_typedef(&mut b, &d);
    same(&a, &b); core::mem::forget(d);
}
#[kani::proof]
#[kani::unwind(36)]
fn c06_def_composite1() { typedef_same32(TypeDefComposite::new(vec![Field::new(None, sym(kani::any()), None, vec![])]).into()); }
#[kani::proof]
#[kani::unwind(36)]
fn c06_def_variant1() { typedef_same32(TypeDefVariant::new(vec![Variant::new(s(1), vec![], kani::any(), vec![])]).into()); }
#[kani::proof]
#[kani::unwind(36)]
fn c06_def_tuple() { typedef_same32(TypeDefTuple::new_portable(vec![sym(kani::any()), sym(kani::any()), sym(kani::any())]).into()); }
#[kani::proof]
#[kani::unwind(36)]
fn c06_def_composite0() { typedef_same32(TypeDefComposite::new(vec![]).into()); }
#[kani::proof]
#[kani::unwind(36)]
fn c06_def_variant0() { typedef_same32(TypeDefVariant::new(vec![]).into()); }
#[kani::proof]
#[kani::unwind(36)]
fn c06_def_tuple0() { typedef_same32(TypeDefTuple::new_portable(vec![]).into()); }

#[kani::proof]
#[kani::unwind(36)]
fn c06_portable_type() {
    // PortableType = compact id, then the type (path, params, def, docs)
    let ty = Type::<PortableForm>::new(Path::from_segments_unchecked(vec![]), vec![], TypeDefSequence::new(sym(kani::any())), vec![]);
    let pt = PortableType::new(kani::any(), ty);
    let mut a = FixedOut::<16>::new(); pt.encode_to(&mut a);
    let mut b = FixedOut::<16>::new(); v14::compact(&mut b, pt.id); v14::encode_type(&mut b, &pt.ty);
    same(&a, &b); core::mem::forget(pt);
}

#[kani::proof]
#[kani::unwind(52)]
fn c06_type_and_registry() {
    // type = path, params, def, docs; PortableType = compact id then type; registry = compact length then entries
    let ty = Type::<PortableForm>::new(
        Path::from_segments_unchecked(vec![s(1), s(2)]),
        vec![TypeParameter::new_portable(s(1), Some(sym(kani::any()))), TypeParameter::new_portable(s(2), None)],
        TypeDefArray::new(kani::any(), sym(kani::any())),
        vec![s(1)],
    );
    let reg = PortableRegistry { types: vec![PortableType::new(kani::any(), ty)] };
    let mut a = FixedOut::<48>::new(); reg.encode_to(&mut a);
    let mut b = FixedOut::<48>::new(); v14::encode_registry_to(&mut b, &reg);
    same(&a, &b); core::mem::forget(reg);
}
