#!/bin/bash
# warm the Kani build cache (dependencies + harness crate) so that the first check does not pay for it
cd "$(dirname "$0")"
cp /repo/Cargo.lock . 2>/dev/null
mkdir -p ../.build/kani-target ../.build/kani-logs
CARGO_NET_OFFLINE=true timeout 900 cargo kani --target-dir ../.build/kani-target --harness c06_symbol --output-format terse > ../.build/kani-logs/setup.log 2>&1
grep -E 'VERIFICATION' ../.build/kani-logs/setup.log || tail -5 ../.build/kani-logs/setup.log
