#!/usr/bin/env python3
"""Two-stage harness generator for C03 / C04 (engine K).

stage 0  emit  src/corpus_<tag>.rs : type definitions (C03: seeded, from the derive grammar; C04: built-in type expressions) + roots()
stage 1  (native, by the replay binary) dump the PortableRegistry of every root as JSON
stage 2  emit  src/<tag>_gen.rs    : per root T
           dec_T(&mut Rd, &mut Leaves)   straight-line decoder derived ONLY from the registry JSON and the SCALE rules
           flat_T(&T, &mut Leaves)       flattening of the Rust value derived from the declaration model (never from the registry)
           harness: v = kani::any(); v.encode_to(FixedOut); dec_T(bytes) consumes exactly and yields the same leaves as flat_T(v)
         + a static comparison of names / order / type names (metadata vs. declaration model) done here in Python.
"""
import json, random, sys, os

INTS = {'u8': 1, 'u16': 2, 'u32': 4, 'u64': 8, 'i8': 1, 'i16': 2, 'i32': 4, 'i64': 8, 'u128': 16, 'i128': 16}
PRIM_NAMES = ['bool', 'char', 'str', 'u8', 'u16', 'u32', 'u64', 'u128', 'u256', 'i8', 'i16', 'i32', 'i64', 'i128', 'i256']


# ----------------------------------------------------------------------------- type expressions (declaration model)
class Ty:
    """kind: int(name) | bool | opt(t) | tuple(ts) | array(t,n) | user(decl, args) | phantom(t) | boxed(t) | result(t,e) | compact(int) | unit
             | vec(t) | string | nonzero(int) | range(t) | rangeinc(t) | duration | cow(t) | rc(t) | arc(t) | refstatic | btreemap(k,v) | btreeset(t) | vecdeque(t) | binaryheap(t)"""
    def __init__(self, kind, *a): self.kind, self.a = kind, a
    def rust(self):
        k, a = self.kind, self.a
        if k == 'int': return a[0]
        if k == 'bool': return 'bool'
        if k == 'unit': return '()'
        if k == 'opt': return 'Option<%s>' % a[0].rust()
        if k == 'tuple': return '(%s,)' % ', '.join(t.rust() for t in a[0]) if len(a[0]) == 1 else '(%s)' % ', '.join(t.rust() for t in a[0])
        if k == 'array': return '[%s; %d]' % (a[0].rust(), a[1])
        if k == 'user': return a[0].name + ('<%s>' % ', '.join(t.rust() for t in a[1]) if a[1] else '')
        if k == 'phantom': return 'PhantomData<%s>' % a[0].rust()
        if k == 'boxed': return 'Box<%s>' % a[0].rust()
        if k == 'rc': return 'Rc<%s>' % a[0].rust()
        if k == 'arc': return 'Arc<%s>' % a[0].rust()
        if k == 'result': return 'Result<%s, %s>' % (a[0].rust(), a[1].rust())
        if k == 'compact': return 'Compact<%s>' % a[0]
        if k == 'vec': return 'Vec<%s>' % a[0].rust()
        if k == 'vecdeque': return 'VecDeque<%s>' % a[0].rust()
        if k == 'btreeset': return 'BTreeSet<%s>' % a[0].rust()
        if k == 'binaryheap': return 'BinaryHeap<%s>' % a[0].rust()
        if k == 'btreemap': return 'BTreeMap<%s, %s>' % (a[0].rust(), a[1].rust())
        if k == 'string': return 'String'
        if k == 'nonzero': return 'core::num::NonZero%s' % a[0].upper()[0] + a[0][1:] if False else 'core::num::NonZero' + a[0][0].upper() + a[0][1:]
        if k == 'range': return 'core::ops::Range<%s>' % a[0].rust()
        if k == 'rangeinc': return 'core::ops::RangeInclusive<%s>' % a[0].rust()
        if k == 'duration': return 'core::time::Duration'
        if k == 'cow': return "Cow<'static, %s>" % a[0].rust()
        if k == 'param': return a[0]
        raise ValueError(k)


class Field:
    def __init__(self, name, ty, compact=False, skip=False): self.name, self.ty, self.compact, self.skip = name, ty, compact, skip


class Variant:
    def __init__(self, name, shape, fields, index=None, disc=None, skip=False): self.name, self.shape, self.fields, self.index, self.disc, self.skip = name, shape, fields, index, disc, skip


class Decl:
    def __init__(self, name, kind, params, body): self.name, self.kind, self.params, self.body = name, kind, params, body     # kind: struct-named|struct-unnamed|struct-unit|enum
    def rust(self):
        g = '<%s>' % ', '.join(self.params) if self.params else ''
        der = '#[derive(Encode, TypeInfo)]\n#[cfg_attr(kani, derive(kani::Arbitrary))]\n'
        def fld(f, named):
            at = ('#[codec(compact)] ' if f.compact else '') + ('#[codec(skip)] ' if f.skip else '')
            return '%s%s%s' % (at, ('pub %s: ' % f.name) if named else 'pub ', f.ty.rust())
        if self.kind == 'struct-named': return der + 'pub struct %s%s { %s }\n' % (self.name, g, ', '.join(fld(f, True) for f in self.body))
        if self.kind == 'struct-unnamed': return der + 'pub struct %s%s(%s);\n' % (self.name, g, ', '.join(fld(f, False) for f in self.body))
        if self.kind == 'struct-unit': return der + 'pub struct %s;\n' % self.name
        vs = []
        for v in self.body:
            at = ('#[codec(index = %d)] ' % v.index if v.index is not None else '') + ('#[codec(skip)] ' if v.skip else '')
            if v.shape == 'unit': s = v.name + (' = %d' % v.disc if v.disc is not None else '')
            elif v.shape == 'named': s = '%s { %s }' % (v.name, ', '.join(('#[codec(compact)] ' if f.compact else '') + ('#[codec(skip)] ' if f.skip else '') + '%s: %s' % (f.name, f.ty.rust()) for f in v.fields))
            else: s = '%s(%s)' % (v.name, ', '.join(('#[codec(compact)] ' if f.compact else '') + ('#[codec(skip)] ' if f.skip else '') + f.ty.rust() for f in v.fields))
            vs.append(at + s)
        return der + 'pub enum %s%s { %s }\n' % (self.name, g, ', '.join(vs))


def subst(ty, env):
    if ty.kind == 'param': return env[ty.a[0]]
    if ty.kind in ('opt', 'phantom', 'boxed', 'vec', 'rc', 'arc', 'range', 'rangeinc', 'cow', 'vecdeque', 'btreeset', 'binaryheap'): return Ty(ty.kind, subst(ty.a[0], env))
    if ty.kind == 'tuple': return Ty('tuple', [subst(t, env) for t in ty.a[0]])
    if ty.kind == 'array': return Ty('array', subst(ty.a[0], env), ty.a[1])
    if ty.kind in ('result', 'btreemap'): return Ty(ty.kind, subst(ty.a[0], env), subst(ty.a[1], env))
    if ty.kind == 'user': return Ty('user', ty.a[0], [subst(t, env) for t in ty.a[1]])
    return ty


# ----------------------------------------------------------------------------- seeded C03 corpus
class Gen:
    def __init__(self, seed):
        self.rng = random.Random(seed); self.decls = []; self.n = 0

    def leaf(self, allow_big=True):
        r = self.rng
        ints = ['u8', 'u16', 'u32', 'u64', 'i8', 'i16', 'i32', 'i64'] + (['u128'] if allow_big else [])
        return Ty('int', r.choice(ints)) if r.random() < 0.85 else Ty('bool')

    def ty(self, depth, params=()):
        r = self.rng
        x = r.random()
        if params and x < 0.2: return Ty('param', r.choice(params))
        if depth <= 0 or x < 0.45: return self.leaf()
        if x < 0.55: return Ty('opt', self.ty(depth - 1, params))
        if x < 0.65: return Ty('tuple', [self.ty(depth - 1, params) for _ in range(r.randint(1, 3))])
        if x < 0.72: return Ty('array', self.leaf(False), r.randint(1, 3))
        if x < 0.78: return Ty('phantom', self.leaf())
        if x < 0.83: return Ty('boxed', self.ty(depth - 1, params))
        if self.decls and x < 0.97:
            d = r.choice(self.decls)
            return Ty('user', d, [self.leaf(False) for _ in d.params])
        return self.leaf()

    def fields(self, named, depth, params, maxn=3):
        r = self.rng; out = []
        for i in range(r.randint(0, maxn)):
            t = self.ty(depth, params)
            compact = t.kind == 'int' and t.a[0] in ('u8', 'u16', 'u32', 'u64') and r.random() < 0.4
            skip = (not compact) and t.kind in ('int', 'bool') and r.random() < 0.12
            out.append(Field('f%d' % i if named else str(i), t, compact, skip))
        return out

    def decl(self, depth=2):
        r = self.rng; name = 'T%d' % self.n; self.n += 1
        params = ['X'] if r.random() < 0.2 else []
        k = r.random()
        if k < 0.3: d = Decl(name, 'struct-named', params, self.fields(True, depth, params))
        elif k < 0.45: d = Decl(name, 'struct-unnamed', params, self.fields(False, depth, params))
        elif k < 0.5: d = Decl(name, 'struct-unit', [], [])
        else:
            vs = []; nv = r.randint(1, 4)
            c_like = r.random() < 0.25
            used = set()
            for i in range(nv):
                idx = None; disc = None
                if r.random() < 0.35:
                    idx = r.choice([x for x in range(0, 256) if x not in used]); used.add(idx)
                if c_like and r.random() < 0.6:
                    disc = r.choice([x for x in range(0, 250) if x not in used]); used.add(disc)
                if idx is None and disc is None: used.add(i)
                shape = 'unit' if c_like else r.choice(['unit', 'named', 'unnamed'])
                fs = [] if shape == 'unit' else self.fields(shape == 'named', depth - 1, params, 2)
                skip = (not c_like) and nv > 2 and r.random() < 0.12
                vs.append(Variant('V%d' % i, shape, fs, idx, disc, skip))
            if all(v.skip for v in vs): vs[0].skip = False
            # no field may use a type parameter only in skipped variants etc. - keep it simple: parameters only on structs
            if params and not any(self._mentions(f.ty) for v in vs for f in v.fields): params = []
            d = Decl(name, 'enum', params, vs)
        if d.kind.startswith('struct') and d.params and not any(self._mentions(f.ty) for f in d.body): d.params = []
        # explicit index collisions with implicit positions are rejected by the codec derive at compile time: make indices explicit everywhere if any is explicit
        if d.kind == 'enum' and any(v.index is not None or v.disc is not None for v in d.body):
            taken = set()
            for v in d.body:
                if v.index is not None: taken.add(v.index)
                elif v.disc is not None: taken.add(v.disc)
            for v in d.body:
                if v.index is None and v.disc is None:
                    v.index = next(x for x in range(256) if x not in taken); taken.add(v.index)
        self.decls.append(d)
        return d

    def _mentions(self, t):
        if t.kind == 'param': return True
        return any(self._mentions(x) for x in t.a if isinstance(x, Ty)) or any(self._mentions(y) for x in t.a if isinstance(x, list) for y in x if isinstance(y, Ty))


FIXED_C03 = '''
// fixed shapes mirroring test_suite/tests/derive.rs
#[derive(Encode, TypeInfo)]
#[cfg_attr(kani, derive(kani::Arbitrary))]
pub struct FxCompact { #[codec(compact)] pub a: u8, #[codec(compact)] pub b: u16, #[codec(compact)] pub c: u32, #[codec(compact)] pub d: u64, pub e: u64 }
#[derive(Encode, TypeInfo)]
#[cfg_attr(kani, derive(kani::Arbitrary))]
pub enum FxIndexed { #[codec(index = 3)] A, #[codec(index = 0)] B(u8), #[codec(index = 2)] C { #[codec(compact)] x: u32, y: bool }, #[codec(skip)] D(u64), #[codec(index = 9)] E }
#[derive(Encode, TypeInfo)]
#[cfg_attr(kani, derive(kani::Arbitrary))]
pub enum FxCLike { A = 7, B = 0, C = 200 }
pub const FX_BASE: isize = 40;
#[derive(Encode, TypeInfo)]
#[cfg_attr(kani, derive(kani::Arbitrary))]
pub enum FxExprDisc { Read = 1 << 0, Write = 1 << 1, Exec = 1 << 2, Tagged = (FX_BASE + 2), Paren = (3 * 7), Plain }
#[derive(Encode, TypeInfo)]
#[cfg_attr(kani, derive(kani::Arbitrary))]
pub enum FxSkipImplicit { A, #[codec(skip)] B(u8), C(u16), #[codec(skip)] D, E { #[codec(skip)] s: u8, x: i32 } }
#[derive(Encode, TypeInfo)]
#[cfg_attr(kani, derive(kani::Arbitrary))]
pub struct FxPhantom<X> { pub a: u8, pub p: PhantomData<X>, pub b: (u16, PhantomData<u64>), #[codec(skip)] pub s: u32, pub c: Option<X> }
#[derive(Encode, TypeInfo)]
#[cfg_attr(kani, derive(kani::Arbitrary))]
pub struct FxSkipUnnamed(pub u8, #[codec(skip)] pub u16, pub u32, #[codec(skip)] pub bool);
#[derive(Encode, TypeInfo)]
#[cfg_attr(kani, derive(kani::Arbitrary))]
pub enum FxSkipUnnamedVar { A(#[codec(skip)] u32, bool, u8), #[codec(index = 7)] B(u16, #[codec(skip)] u8), C { #[codec(skip)] a: u8, b: u16 } }
#[derive(Encode, TypeInfo)]
#[cfg_attr(kani, derive(kani::Arbitrary))]
pub struct FxNested { pub g: FxPhantom<u16>, pub e: FxIndexed, pub arr: [FxCLike; 2], pub t: (u8, (bool, i16)), pub b: Box<u32> }
'''
FIXED_MODELS = None   # filled in below


def fixed_decls():
    I = lambda n: Ty('int', n)
    ph = Decl('FxPhantom', 'struct-named', ['X'], [Field('a', I('u8')), Field('p', Ty('phantom', Ty('param', 'X'))), Field('b', Ty('tuple', [I('u16'), Ty('phantom', I('u64'))])), Field('s', I('u32'), skip=True), Field('c', Ty('opt', Ty('param', 'X')))])
    idx = Decl('FxIndexed', 'enum', [], [Variant('A', 'unit', [], index=3), Variant('B', 'unnamed', [Field('0', I('u8'))], index=0), Variant('C', 'named', [Field('x', I('u32'), compact=True), Field('y', Ty('bool'))], index=2),
                                           Variant('D', 'unnamed', [Field('0', I('u64'))], skip=True), Variant('E', 'unit', [], index=9)])
    cl = Decl('FxCLike', 'enum', [], [Variant('A', 'unit', [], disc=7), Variant('B', 'unit', [], disc=0), Variant('C', 'unit', [], disc=200)])
    cp = Decl('FxCompact', 'struct-named', [], [Field('a', I('u8'), True), Field('b', I('u16'), True), Field('c', I('u32'), True), Field('d', I('u64'), True), Field('e', I('u64'))])
    ne = Decl('FxNested', 'struct-named', [], [Field('g', Ty('user', ph, [I('u16')])), Field('e', Ty('user', idx, [])), Field('arr', Ty('array', Ty('user', cl, []), 2)), Field('t', Ty('tuple', [I('u8'), Ty('tuple', [Ty('bool'), I('i16')])])), Field('b', Ty('boxed', I('u32')))])
    sk = Decl('FxSkipImplicit', 'enum', [], [Variant('A', 'unit', []), Variant('B', 'unnamed', [Field('0', I('u8'))], skip=True), Variant('C', 'unnamed', [Field('0', I('u16'))]), Variant('D', 'unit', [], skip=True),
                                              Variant('E', 'named', [Field('s', I('u8'), skip=True), Field('x', I('i32'))])])
    ex = Decl('FxExprDisc', 'enum', [], [Variant('Read', 'unit', [], disc=1), Variant('Write', 'unit', [], disc=2), Variant('Exec', 'unit', [], disc=4), Variant('Tagged', 'unit', [], disc=42), Variant('Paren', 'unit', [], disc=21), Variant('Plain', 'unit', [])])
    su = Decl('FxSkipUnnamed', 'struct-unnamed', [], [Field('0', I('u8')), Field('1', I('u16'), skip=True), Field('2', I('u32')), Field('3', Ty('bool'), skip=True)])
    sv = Decl('FxSkipUnnamedVar', 'enum', [], [Variant('A', 'unnamed', [Field('0', I('u32'), skip=True), Field('1', Ty('bool')), Field('2', I('u8'))]), Variant('B', 'unnamed', [Field('0', I('u16')), Field('1', I('u8'), skip=True)], index=7),
                                                Variant('C', 'named', [Field('a', I('u8'), skip=True), Field('b', I('u16'))])])
    return [cp, idx, cl, ph, ne, sk, ex, su, sv], [Ty('user', cp, []), Ty('user', idx, []), Ty('user', cl, []), Ty('user', ph, [I('u32')]), Ty('user', ne, []), Ty('user', sk, []), Ty('user', ex, []), Ty('user', su, []), Ty('user', sv, [])]


# ----------------------------------------------------------------------------- flatten (declaration model) -> Rust code
class Code:
    def __init__(self): self.lines, self.tmp = [], 0
    def emit(self, s): self.lines.append(s)
    def fresh(self):
        self.tmp += 1; return 'x%d' % self.tmp


def int_kind(name): return INTS[name] * 2 + (1 if name.startswith('i') else 0)


def gen_flat(ty, expr, c, env=None):
    """append Rust statements pushing the leaves of the value `expr` (a place expression of type ty)"""
    k, a = ty.kind, ty.a
    if k == 'param': return gen_flat(env[a[0]], expr, c, env)
    if k == 'int':
        # the leaf carries its integer kind (width and signedness): metadata that says u128 for an i128 decodes the same bits to another number
        kd = int_kind(a[0])
        if INTS[a[0]] == 16: c.emit('l.push_int(%s as u128 as u64, %d); l.push(((%s as u128) >> 64) as u64);' % (expr, kd, expr))
        elif a[0].startswith('i'): c.emit('l.push_int(%s as u%d as u64, %d);' % (expr, INTS[a[0]] * 8, kd))
        else: c.emit('l.push_int(%s as u64, %d);' % (expr, kd))
    elif k == 'bool': c.emit('l.push(%s as u64);' % expr)
    elif k == 'unit': pass
    elif k == 'compact': c.emit('l.push_int(%s.0 as u64, %d);' % (expr, int_kind(a[0])))
    elif k == 'nonzero':
        kd = int_kind(a[0])
        if INTS[a[0]] == 16: c.emit('l.push_int(%s.get() as u128 as u64, %d); l.push(((%s.get() as u128) >> 64) as u64);' % (expr, kd, expr))
        else: c.emit('l.push_int(%s.get() as u%d as u64, %d);' % (expr, INTS[a[0]] * 8, kd))
    elif k == 'opt':
        v = c.fresh(); c.emit('match &%s { None => l.push(0), Some(%s) => { l.push(1);' % (expr, v)); gen_flat(a[0], '(*%s)' % v, c, env); c.emit('} }')
    elif k == 'result':
        v = c.fresh(); c.emit('match &%s { Ok(%s) => { l.push(0);' % (expr, v)); gen_flat(a[0], '(*%s)' % v, c, env); c.emit('} Err(%s) => { l.push(1);' % v); gen_flat(a[1], '(*%s)' % v, c, env); c.emit('} }')
    elif k == 'tuple':
        for i, t in enumerate(a[0]): gen_flat(t, '%s.%d' % (expr, i), c, env)
    elif k == 'array':
        for i in range(a[1]): gen_flat(a[0], '%s[%d]' % (expr, i), c, env)
    elif k in ('boxed', 'rc', 'arc', 'cow'): gen_flat(a[0], '(*%s)' % expr, c, env)
    elif k == 'phantom': pass
    elif k in ('vec', 'vecdeque'):
        c.emit('l.push(%s.len() as u64);' % expr)
        for i in range(2):
            c.emit('if %s.len() > %d {' % (expr, i)); gen_flat(a[0], '%s[%d]' % (expr, i), c, env); c.emit('}')
    elif k in ('btreeset', 'binaryheap'):
        c.emit('l.push(%s.len() as u64);' % expr)
        v = c.fresh(); c.emit('for %s in %s.iter().take(2) {' % (v, expr)); gen_flat(a[0], '(*%s)' % v, c, env); c.emit('}')
    elif k == 'btreemap':
        c.emit('l.push(%s.len() as u64);' % expr)
        kk, vv = c.fresh(), c.fresh(); c.emit('for (%s, %s) in %s.iter().take(2) {' % (kk, vv, expr)); gen_flat(a[0], '(*%s)' % kk, c, env); gen_flat(a[1], '(*%s)' % vv, c, env); c.emit('}')
    elif k == 'string':
        c.emit('l.push(%s.len() as u64);' % expr)
        for i in range(2): c.emit('if %s.len() > %d { l.push(%s.as_bytes()[%d] as u64); }' % (expr, i, expr, i))
    elif k == 'range': gen_flat(a[0], '%s.start' % expr, c, env); gen_flat(a[0], '%s.end' % expr, c, env)
    elif k == 'rangeinc': gen_flat(a[0], '(*%s.start())' % expr, c, env); gen_flat(a[0], '(*%s.end())' % expr, c, env)
    elif k == 'duration': c.emit('l.push_int(%s.as_secs(), %d); l.push_int(%s.subsec_nanos() as u64, %d);' % (expr, int_kind('u64'), expr, int_kind('u32')))
    elif k == 'user':
        d, args = a
        env2 = dict(zip(d.params, [subst(t, env) if env else t for t in args]))
        if d.kind in ('struct-named', 'struct-unnamed'):
            for f in d.body:
                if f.skip: continue
                gen_flat(f.ty, '%s.%s' % (expr, f.name), c, env2)
        elif d.kind == 'enum':
            c.emit('match &%s {' % expr)
            for pos, v in enumerate(d.body):
                binds = [c.fresh() for _ in v.fields]
                if v.shape == 'unit': pat = '%s::%s' % (d.name, v.name)
                elif v.shape == 'named': pat = '%s::%s { %s }' % (d.name, v.name, ', '.join('%s: %s' % (f.name, b) for f, b in zip(v.fields, binds)))
                else: pat = '%s::%s(%s)' % (d.name, v.name, ', '.join(binds))
                c.emit('%s => { l.push(%d);' % (pat, pos))
                if v.skip: c.emit('l.skipped = true;')      # encoding a skipped variant is not defined by the codec; the harness assumes such values away
                for f, b in zip(v.fields, binds):
                    if not f.skip: gen_flat(f.ty, '(*%s)' % b, c, env2)
                    else: c.emit('let _ = %s;' % b)
                c.emit('}')
            c.emit('}')
    else: raise ValueError('flat ' + k)


def gen_sample(ty, env=None):
    """Rust expression building a pseudo-random value of ty from `g` (native replay only)"""
    k, a = ty.kind, ty.a
    if k == 'param': return gen_sample(env[a[0]], env)
    if k == 'int': return '(g.int() as %s)' % a[0]
    if k == 'bool': return '(g.int() & 1 == 1)'
    if k == 'unit': return '()'
    if k == 'compact': return 'Compact(g.int() as %s)' % a[0]
    if k == 'nonzero': return '%s::new((g.int() as %s) | 1).unwrap()' % (ty.rust(), a[0])
    if k == 'opt': return '(if g.int() & 1 == 1 { Some(%s) } else { None })' % gen_sample(a[0], env)
    if k == 'result': return '(if g.int() & 1 == 1 { Ok(%s) } else { Err(%s) })' % (gen_sample(a[0], env), gen_sample(a[1], env))
    if k == 'tuple': return '(%s,)' % ', '.join(gen_sample(t, env) for t in a[0])
    if k == 'array': return '[%s]' % ', '.join(gen_sample(a[0], env) for _ in range(a[1]))
    if k == 'boxed': return 'Box::new(%s)' % gen_sample(a[0], env)
    if k == 'rc': return 'Rc::new(%s)' % gen_sample(a[0], env)
    if k == 'arc': return 'Arc::new(%s)' % gen_sample(a[0], env)
    if k == 'cow': return 'Cow::Owned(%s)' % gen_sample(a[0], env)
    if k == 'phantom': return 'PhantomData'
    if k == 'vec': return '{ let n = (g.int() %% 3) as usize; let mut v = Vec::new(); for _ in 0..n { v.push(%s); } v }' % gen_sample(a[0], env)
    if k == 'vecdeque': return '{ let n = (g.int() %% 3) as usize; let mut v = VecDeque::new(); for _ in 0..n { v.push_back(%s); } v }' % gen_sample(a[0], env)
    if k == 'string': return '{ let n = (g.int() % 3) as usize; let mut v = String::new(); for _ in 0..n { v.push((b\'a\' + (g.int() % 26) as u8) as char); } v }'
    if k == 'btreeset': return '{ let mut v = BTreeSet::new(); for _ in 0..(g.int() %% 3) { v.insert(%s); } v }' % gen_sample(a[0], env)
    if k == 'binaryheap': return '{ let mut v = BinaryHeap::new(); if g.int() & 1 == 1 { v.push(%s); } v }' % gen_sample(a[0], env)
    if k == 'btreemap': return '{ let mut v = BTreeMap::new(); for _ in 0..(g.int() %% 3) { v.insert(%s, %s); } v }' % (gen_sample(a[0], env), gen_sample(a[1], env))
    if k == 'range': return '(%s..%s)' % (gen_sample(a[0], env), gen_sample(a[0], env))
    if k == 'rangeinc': return '(%s..=%s)' % (gen_sample(a[0], env), gen_sample(a[0], env))
    if k == 'duration': return 'core::time::Duration::new(g.int(), (g.int() % 1_000_000_000) as u32)'
    if k == 'user':
        d, args = a
        env2 = dict(zip(d.params, [subst(t, env) if env else t for t in args]))
        if d.kind == 'struct-unit': return d.name
        if d.kind == 'struct-named': return '%s { %s }' % (d.name, ', '.join('%s: %s' % (f.name, gen_sample(f.ty, env2)) for f in d.body))
        if d.kind == 'struct-unnamed': return '%s(%s)' % (d.name, ', '.join(gen_sample(f.ty, env2) for f in d.body))
        vs = [v for v in d.body if not v.skip]
        arms = []
        for i, v in enumerate(vs):
            if v.shape == 'unit': e = '%s::%s' % (d.name, v.name)
            elif v.shape == 'named': e = '%s::%s { %s }' % (d.name, v.name, ', '.join('%s: %s' % (f.name, gen_sample(f.ty, env2)) for f in v.fields))
            else: e = '%s::%s(%s)' % (d.name, v.name, ', '.join(gen_sample(f.ty, env2) for f in v.fields))
            arms.append('%s => %s' % (i if i < len(vs) - 1 else '_', e))
        return '(match g.int() %% %d { %s })' % (len(vs), ', '.join(arms))
    raise ValueError('sample ' + k)


def has_skipped_variant(ty, env=None):
    k, a = ty.kind, ty.a
    if k == 'user':
        d, args = a
        if d.kind == 'enum' and any(v.skip for v in d.body): return True
        return any(has_skipped_variant(f.ty) for f in (d.body if d.kind != 'enum' else [f for v in d.body for f in v.fields]))
    return any(has_skipped_variant(x) for x in a if isinstance(x, Ty)) or any(has_skipped_variant(y) for x in a if isinstance(x, list) for y in x if isinstance(y, Ty))


def gen_skip_assume(ty, expr, c, env=None):
    """kani::assume that no skipped variant occurs inside the value"""
    k, a = ty.kind, ty.a
    if k == 'user':
        d, args = a
        if d.kind == 'enum':
            sk = [v for v in d.body if v.skip]
            for v in sk: c.emit('kani::assume(!matches!(&%s, %s::%s { .. }));' % (expr, d.name, v.name))
        elif d.kind != 'struct-unit':
            for f in d.body:
                if has_skipped_variant(f.ty): gen_skip_assume(f.ty, '%s.%s' % (expr, f.name), c)
    elif k == 'array':
        for i in range(a[1]): gen_skip_assume(a[0], '%s[%d]' % (expr, i), c)
    elif k == 'tuple':
        for i, t in enumerate(a[0]): gen_skip_assume(t, '%s.%d' % (expr, i), c)
    # Option / Box of enums with skipped variants: excluded by the generator (kept simple)


# ----------------------------------------------------------------------------- decoder from registry JSON -> Rust code
def gen_dec(reg, tid, c, decl_hint, depth=0):
    """reg: list of types (registry JSON of the replay binary); decl_hint: declaration-model Ty used ONLY to map variant names to declared positions"""
    t = reg[tid]; d = t['def']
    if depth > 12: raise ValueError('type graph too deep')
    if 'primitive' in d:
        p = PRIM_NAMES[d['primitive']]
        if p == 'bool': c.emit('l.push(r.boolean());')
        elif p in ('u128', 'i128'): c.emit('l.push_int(r.le(8), %d); l.push(r.le(8));' % int_kind(p))
        elif p in INTS: c.emit('l.push_int(r.le(%d), %d);' % (INTS[p], int_kind(p)))
        elif p == 'str':
            c.emit('{ let n = r.compact(); l.push(n); if n > 2 { r.ok = false; } else { let mut i = 0; while i < n { l.push(r.le(1)); i += 1; } } }')
        else: raise ValueError('primitive ' + p)
    elif 'compact' in d:
        # the compact integer's kind is that of the primitive the metadata points at
        inner = reg[d['compact']]['def']
        pk = PRIM_NAMES[inner['primitive']] if 'primitive' in inner else None
        if pk not in INTS: raise ValueError('compact of a non-integer type: %r' % (inner,))
        c.emit('l.push_int(r.compact(), %d);' % int_kind(pk))
    elif 'composite' in d:
        hint_fields = decl_fields(decl_hint)
        for i, f in enumerate(d['composite']): gen_dec(reg, f['ty'], c, hint_fields[i] if hint_fields and i < len(hint_fields) else None, depth + 1)
    elif 'tuple' in d:
        hs = tuple_hints(decl_hint)
        for i, x in enumerate(d['tuple']): gen_dec(reg, x, c, hs[i] if hs and i < len(hs) else None, depth + 1)
    elif 'array' in d:
        n, x = d['array']
        for i in range(n): gen_dec(reg, x, c, elem_hint(decl_hint), depth + 1)
    elif 'sequence' in d:
        c.emit('{ let n = r.compact(); l.push(n); if n > 2 { r.ok = false; } else { let mut i = 0; while i < n {'); gen_dec(reg, d['sequence'], c, elem_hint(decl_hint), depth + 1); c.emit('i += 1; } } }')
    elif 'variant' in d:
        c.emit('match r.u8() {')
        names = variant_positions(decl_hint, t)
        for v in d['variant']:
            c.emit('%d => { l.push(%d);' % (v['index'], names.get(v['name'], 999)))
            hv = variant_field_hints(decl_hint, v['name'])
            for i, f in enumerate(v['fields']): gen_dec(reg, f['ty'], c, hv[i] if hv and i < len(hv) else None, depth + 1)
            c.emit('}')
        c.emit('_ => { r.ok = false; } }')
    else: raise ValueError('def ' + str(d))


def resolve_hint(h, env=None):
    return h


def peel(h):
    while h is not None and h.kind in ('boxed', 'rc', 'arc', 'cow'): h = h.a[0]
    return h


def decl_fields(h):
    h = peel(h)
    if h is None: return None
    if h.kind == 'user' and h.a[0].kind.startswith('struct'):
        d, args = h.a; env = dict(zip(d.params, args))
        return [subst(f.ty, env) for f in d.body if not f.skip and peel(subst(f.ty, env)).kind != 'phantom']
    if h.kind == 'range': return [h.a[0], h.a[0]]
    if h.kind == 'rangeinc': return [h.a[0], h.a[0]]
    if h.kind == 'duration': return [Ty('int', 'u64'), Ty('int', 'u32')]
    if h.kind == 'nonzero': return [Ty('int', h.a[0])]
    return None


def tuple_hints(h):
    h = peel(h)
    if h is not None and h.kind == 'tuple': return [t for t in h.a[0] if peel(t).kind != 'phantom']
    return None


def elem_hint(h):
    h = peel(h)
    if h is not None and h.kind in ('array', 'vec', 'vecdeque', 'btreeset', 'binaryheap'): return h.a[0]
    if h is not None and h.kind == 'btreemap': return Ty('tuple', [h.a[0], h.a[1]])
    return None


def variant_positions(h, t):
    h = peel(h)
    if h is not None and h.kind == 'user' and h.a[0].kind == 'enum': return {v.name: i for i, v in enumerate(h.a[0].body)}
    if h is not None and h.kind == 'opt': return {'None': 0, 'Some': 1}
    if h is not None and h.kind == 'result': return {'Ok': 0, 'Err': 1}
    return {}


def variant_field_hints(h, vname):
    h = peel(h)
    if h is not None and h.kind == 'user' and h.a[0].kind == 'enum':
        d, args = h.a; env = dict(zip(d.params, args))
        for v in d.body:
            if v.name == vname: return [subst(f.ty, env) for f in v.fields if not f.skip and peel(subst(f.ty, env)).kind != 'phantom']
    if h is not None and h.kind == 'opt' and vname == 'Some': return [h.a[0]]
    if h is not None and h.kind == 'result': return [h.a[0] if vname == 'Ok' else h.a[1]]
    return None


# ----------------------------------------------------------------------------- static comparison metadata vs declaration (names, order, type names)
def static_compare(reg, tid, h, problems, where, seen=None):
    seen = seen if seen is not None else set()
    h = peel(h)
    if h is None or (tid, id(h)) in seen: return
    seen.add((tid, id(h)))
    t = reg[tid]; d = t['def']
    if h.kind == 'user':
        decl, args = h.a; env = dict(zip(decl.params, args))
        if t['path'][-1:] != [decl.name]: problems.append('%s: path %s does not end in %s' % (where, t['path'], decl.name))
        if [p['name'] for p in t['params']] != decl.params: problems.append('%s: type parameters %s vs %s' % (where, [p['name'] for p in t['params']], decl.params))
        if decl.kind.startswith('struct'):
            if 'composite' not in d: problems.append('%s: struct described as %s' % (where, list(d))); return
            exp = [f for f in decl.body if not f.skip and peel(subst(f.ty, env)).kind != 'phantom']
            got = d['composite']
            if len(exp) != len(got): problems.append('%s: %d fields described, %d encoded members declared' % (where, len(got), len(exp))); return
            for f, g in zip(exp, got):
                want_name = f.name if decl.kind == 'struct-named' else None
                if g['name'] != want_name: problems.append('%s: field name %s vs %s' % (where, g['name'], want_name))
                want_tn = subst_name(f.ty)
                if g['type_name'] is not None and g['type_name'].replace(' ', '') != want_tn.replace(' ', ''): problems.append('%s.%s: type name %r vs %r' % (where, f.name, g['type_name'], want_tn))
                if f.compact and 'compact' not in reg[g['ty']]['def']: problems.append('%s.%s: compact member not described as compact' % (where, f.name))
                static_compare(reg, g['ty'], subst(f.ty, env) if not f.compact else None, problems, where + '.' + f.name, seen)
        else:
            if 'variant' not in d: problems.append('%s: enum described as %s' % (where, list(d))); return
            exp = [v for v in decl.body if not v.skip]
            got = d['variant']
            if [v.name for v in exp] != [g['name'] for g in got]: problems.append('%s: variants %s vs %s' % (where, [g['name'] for g in got], [v.name for v in exp])); return
            for v, g in zip(exp, got):
                ef = [f for f in v.fields if not f.skip and peel(subst(f.ty, env)).kind != 'phantom']
                if len(ef) != len(g['fields']): problems.append('%s::%s: %d fields described, %d declared' % (where, v.name, len(g['fields']), len(ef))); continue
                for f, gf in zip(ef, g['fields']):
                    if gf['name'] != (f.name if v.shape == 'named' else None): problems.append('%s::%s: field name %s' % (where, v.name, gf['name']))
                    static_compare(reg, gf['ty'], subst(f.ty, env) if not f.compact else None, problems, '%s::%s.%s' % (where, v.name, f.name), seen)
    elif h.kind == 'tuple':
        if 'tuple' in d:
            ts = [x for x in h.a[0] if peel(x).kind != 'phantom']
            if len(ts) != len(d['tuple']): problems.append('%s: tuple arity %d vs %d' % (where, len(d['tuple']), len(ts)))
            else:
                for i, (x, g) in enumerate(zip(ts, d['tuple'])): static_compare(reg, g, x, problems, '%s.%d' % (where, i), seen)
    elif h.kind == 'array':
        if 'array' not in d or d['array'][0] != h.a[1]: problems.append('%s: array length' % where)
        else: static_compare(reg, d['array'][1], h.a[0], problems, where + '[]', seen)


def subst_name(ty): return ty.rust()


# ----------------------------------------------------------------------------- emission
HEADER = '// @generated by kani/gen.py - do not edit\n#![allow(unused, non_camel_case_types, clippy::all)]\nuse scale::{Compact, Encode};\nuse scale_info::TypeInfo;\nuse core::marker::PhantomData;\n' \
         'use std::{borrow::Cow, collections::{BTreeMap, BTreeSet, BinaryHeap, VecDeque}, rc::Rc, sync::Arc};\n'


def emit_corpus(tag, decl_src, roots):
    s = HEADER + decl_src + '\npub fn roots() -> Vec<(&\'static str, scale_info::MetaType)> {\n    vec![\n'
    for i, r in enumerate(roots): s += '        ("%s_R%d", scale_info::meta_type::<%s>()),\n' % (tag, i, r.rust())
    s += '    ]\n}\n'
    return s


def emit_harnesses(tag, roots, dump, ctor=None, nleaves=40, nbytes=96):
    """dump: {root name: registry json + root id}"""
    out = '// @generated by kani/gen.py - do not edit\n#![allow(unused, non_camel_case_types, clippy::all)]\nuse crate::corpus_%s::*;\nuse crate::dec::*;\n#[cfg(kani)]\nuse crate::FixedOut;\nuse scale::{Compact, Encode};\nuse core::marker::PhantomData;\n' \
          'use std::{borrow::Cow, collections::{BTreeMap, BTreeSet, BinaryHeap, VecDeque}, rc::Rc, sync::Arc};\n\n' % tag
    problems, names, natives = {}, [], []
    for i, r in enumerate(roots):
        name = '%s_R%d' % (tag, i)
        d = dump[name]
        reg, rid = d['types'], d['root']
        pr = []
        static_compare(reg, rid, r, pr, r.rust())
        if pr: problems[name] = {'type': r.rust(), 'problems': pr[:6]}
        c = Code()
        try:
            gen_dec(reg, rid, c, r)
        except ValueError as e:
            problems[name] = {'type': r.rust(), 'problems': ['decoder generation: %s' % e]}; continue
        out += 'fn dec_%s(r: &mut Rd, l: &mut Leaves) {\n    %s\n}\n' % (name, '\n    '.join(c.lines))
        c2 = Code(); gen_flat(r, '(*v)', c2)
        out += 'fn flat_%s(v: &%s, l: &mut Leaves) {\n    %s\n}\n' % (name, r.rust(), '\n    '.join(c2.lines))
        c3 = Code()
        mk = ctor[i] if ctor and ctor[i] else 'let v: %s = kani::any();' % r.rust()
        if mk != 'NOKANI': names.append(name.lower())
        if mk == 'NOKANI': mk = 'let v: %s = unimplemented!();' % r.rust()
        out += '#[cfg(kani)]\n#[kani::proof]\n#[kani::unwind(%d)]\nfn %s() {\n    %s\n    %s\n    let mut out = FixedOut::<%d>::new();\n    let mut want = Leaves::new();\n    flat_%s(&v, &mut want);\n    kani::assume(!want.skipped);      // values inside #[codec(skip)] variants have no defined encoding\n    v.encode_to(&mut out);\n    assert!(out.n <= %d);\n' % (nbytes + 4, name.lower(), mk, '\n    '.join(c3.lines), nbytes, name, nbytes)
        out += '    let mut r = Rd { b: &out.buf, n: out.n, p: 0, ok: true };\n    let mut got = Leaves::new();\n    dec_%s(&mut r, &mut got);\n' % name
        out += '    assert!(r.ok);\n    assert!(r.p == out.n);\n    got.same(&want);\n    kani::cover!(true);\n    core::mem::forget(v);\n}\n\n'
        natives.append(name)
        out += '#[cfg(not(kani))]\npub fn native_%s(g: &mut Gen) -> bool {\n    let v: %s = %s;\n    let bytes = v.encode();\n    let mut r = Rd { b: &bytes, n: bytes.len(), p: 0, ok: true };\n' % (name, r.rust(), gen_sample(r))
        out += '    let mut got = Leaves::new();\n    dec_%s(&mut r, &mut got);\n    let mut want = Leaves::new();\n    flat_%s(&v, &mut want);\n    r.ok && r.p == bytes.len() && got.n == want.n && got.n <= NL && got.v[..got.n] == want.v[..want.n] && got.k[..got.n] == want.k[..want.n]\n}\n\n' % (name, name)
    out += '#[cfg(not(kani))]\npub fn native_all(rounds: usize, seed: u64) -> Vec<(&\'static str, usize)> {\n    let mut out = vec![];\n'
    for nm in natives:
        out += '    { let mut g = Gen::new(seed); let mut bad = 0; for _ in 0..rounds { if !native_%s(&mut g) { bad += 1; } } out.push(("%s", bad)); }\n' % (nm, nm.lower())
    out += '    out\n}\n'
    return out, names, problems


def build_c03(seed, count):
    fd, froots = fixed_decls()
    g = Gen(seed)
    roots = list(froots)
    for _ in range(count):
        d = g.decl()
        roots.append(Ty('user', d, [g.leaf(False) for _ in d.params]))
    src = FIXED_C03 + '\n' + ''.join(d.rust() for d in g.decls)
    return src, roots


def build_c04(thorough, seed=0):
    """built-in type expressions: (roots, constructors) ; constructor None = kani::any()"""
    I = lambda n: Ty('int', n)
    B = Ty('bool')
    roots, ctors = [], []
    def add(t, ctor=None): roots.append(t); ctors.append(ctor)
    def anyv(t): return 'let v: %s = kani::any();' % t.rust()
    for n in ['u8', 'u16', 'u32', 'u64', 'u128', 'i8', 'i16', 'i32', 'i64', 'i128']: add(I(n))
    add(B); add(Ty('unit'), 'let v: () = ();')
    add(Ty('array', I('u8'), 3)); add(Ty('array', I('u16'), 2)); add(Ty('array', Ty('tuple', [I('u8'), B]), 2))
    def tup(ts): add(Ty('tuple', ts), 'let v: %s = (%s);' % (Ty('tuple', ts).rust(), ''.join('kani::any(), ' for _ in ts)))
    widths = ['u8', 'u16', 'u32', 'u8', 'u64', 'u16']
    for ar in range(1, 19): tup([I(widths[i % 6]) for i in range(ar)])
    tup([I('u8'), Ty('tuple', [B, I('i16')]), Ty('opt', I('u32'))])
    add(Ty('opt', I('u32'))); add(Ty('opt', Ty('opt', I('u8')))); add(Ty('result', I('u8'), I('u16'))); add(Ty('result', Ty('unit'), I('u32')), 'let v: Result<(), u32> = if kani::any() { Ok(()) } else { Err(kani::any()) };')
    add(Ty('boxed', I('u16'))); add(Ty('rc', I('u16')), 'let v: Rc<u16> = Rc::new(kani::any());'); add(Ty('arc', I('u32')), 'let v: Arc<u32> = Arc::new(kani::any());')
    add(Ty('cow', I('u16')), "let v: Cow<'static, u16> = Cow::Owned(kani::any());")
    def vec(t, kind='vec'):
        ty = Ty(kind, t)
        if kind == 'vec': add(ty, 'let n: usize = kani::any(); kani::assume(n <= 2); let a: [%s; 2] = kani::any(); let v: %s = a[..n].to_vec();' % (t.rust(), ty.rust()))
        else: add(ty, 'let n: usize = kani::any(); kani::assume(n <= 2); let a: [%s; 2] = kani::any(); let mut v: %s = VecDeque::new(); let mut i = 0; while i < n { v.push_back(a[i]); i += 1; }' % (t.rust(), ty.rust()))
    vec(I('u8')); vec(I('u16')); vec(I('u8'), 'vecdeque')
    if thorough: vec(Ty('tuple', [I('u8'), B]))
    add(Ty('string'), 'let k: u8 = kani::any(); let v: String = if k == 0 { String::new() } else if k == 1 { String::from("a") } else { String::from("Zq") };')
    add(Ty('btreeset', I('u8')), 'NOKANI')          # B-tree iteration is out of CBMC's reach (timeout with one element): native sampling + static shape only
    add(Ty('btreemap', I('u8'), I('u16')), 'NOKANI')
    add(Ty('binaryheap', I('u16')), 'let mut v: BinaryHeap<u16> = BinaryHeap::new(); if kani::any() { v.push(kani::any()); }')
    for n in ['u8', 'u16', 'u32', 'u64']: add(Ty('compact', n), 'let v: Compact<%s> = Compact(kani::any());' % n)
    add(Ty('range', I('u8')), 'let v: core::ops::Range<u8> = kani::any()..kani::any();'); add(Ty('rangeinc', I('u16')), 'let v: core::ops::RangeInclusive<u16> = kani::any()..=kani::any();')
    for n in ['u8', 'u16', 'u32', 'u64', 'u128', 'i8', 'i16', 'i32', 'i64', 'i128']: add(Ty('nonzero', n))      # every row of impl_for_non_zero!
    add(Ty('duration'), 'let nanos: u32 = kani::any(); kani::assume(nanos < 1_000_000_000); let v = core::time::Duration::new(kani::any(), nanos);')
    add(Ty('phantom', I('u8')), 'let v: PhantomData<u8> = PhantomData;')
    PH = lambda t: Ty('phantom', t)
    add(Ty('tuple', [PH(I('u8')), I('u64')]), 'let v: (PhantomData<u8>, u64) = (PhantomData, kani::any());')
    add(Ty('tuple', [I('u8'), PH(B), I('u32'), B]), 'let v: (u8, PhantomData<bool>, u32, bool) = (kani::any(), PhantomData, kani::any(), kani::any());')
    add(Ty('tuple', [I('u16'), PH(I('u8'))]), 'let v: (u16, PhantomData<u8>) = (kani::any(), PhantomData);')
    add(Ty('opt', Ty('tuple', [PH(I('u8')), I('u16'), PH(I('u32')), I('u8')])), 'let v: Option<(PhantomData<u8>, u16, PhantomData<u32>, u8)> = if kani::any() { Some((PhantomData, kani::any(), PhantomData, kani::any())) } else { None };')
    add(Ty('array', Ty('tuple', [PH(I('u8')), I('u8')]), 2), 'let v: [(PhantomData<u8>, u8); 2] = [(PhantomData, kani::any()), (PhantomData, kani::any())];')
    # nesting, depth 2 (+ seeded depth 3 in the thorough tier)
    add(Ty('opt', Ty('array', I('u16'), 2))); add(Ty('array', Ty('opt', B), 2)); add(Ty('opt', Ty('boxed', I('u32')))); add(Ty('boxed', Ty('tuple', [I('u8'), I('u16')])))
    add(Ty('result', Ty('opt', I('u8')), Ty('tuple', [I('u8'), I('u8')])))
    if thorough: add(Ty('vec', Ty('opt', I('u8'))), 'let n: usize = kani::any(); kani::assume(n <= 2); let a: [Option<u8>; 2] = kani::any(); let v: Vec<Option<u8>> = a[..n].to_vec();')
    add(Ty('opt', Ty('vec', I('u8'))), 'let n: usize = kani::any(); kani::assume(n <= 2); let a: [u8; 2] = kani::any(); let v: Option<Vec<u8>> = if kani::any() { Some(a[..n].to_vec()) } else { None };')
    add(Ty('tuple', [Ty('compact', 'u32'), Ty('range', I('u8'))]), 'let v: (Compact<u32>, core::ops::Range<u8>) = (Compact(kani::any()), kani::any()..kani::any());')
    if thorough:
        rng = random.Random(seed)
        def rnd(d):
            x = rng.random()
            if d == 0 or x < 0.3: return I(rng.choice(['u8', 'u16', 'u32', 'i8', 'u64'])) if rng.random() < 0.8 else B
            if x < 0.5: return Ty('opt', rnd(d - 1))
            if x < 0.65: return Ty('tuple', [rnd(d - 1) for _ in range(rng.randint(1, 3))])
            if x < 0.78: return Ty('array', rnd(d - 1), rng.randint(1, 2))
            if x < 0.9: return Ty('result', rnd(d - 1), rnd(d - 1))
            return Ty('boxed', rnd(d - 1))
        for _ in range(40): add(rnd(3))
    return roots, ctors


SHAPE_ONLY_C04 = [('char', {'primitive': 1}), ('(u8, u8, u8, u8, u8, u8, u8, u8, u8, u8, u8, u8, u8, u8, u8, u8, u8, u8, u8)', {'tuple': 19}),
                  ('(u8, u8, u8, u8, u8, u8, u8, u8, u8, u8, u8, u8, u8, u8, u8, u8, u8, u8, u8, u8)', {'tuple': 20}), ('str', {'primitive': 2}), ('[u8]', {'sequence': None}), ('&\'static [u16]', {'sequence': None}),
                  ('bitvec::vec::BitVec<u8, bitvec::order::Lsb0>', {'bitsequence': None}), ('bitvec::vec::BitVec<u16, bitvec::order::Msb0>', {'bitsequence': None})]


def emit_corpus_c04(roots):
    s = HEADER + '\npub fn roots() -> Vec<(&\'static str, scale_info::MetaType)> {\n    vec![\n'
    for i, r in enumerate(roots): s += '        ("c04_R%d", scale_info::meta_type::<%s>()),\n' % (i, r.rust())
    s += '    ]\n}\n#[cfg(not(kani))]\npub fn shape_roots() -> Vec<(&\'static str, scale_info::MetaType)> {\n    vec![\n'
    for i, (t, _) in enumerate(SHAPE_ONLY_C04): s += '        ("c04_S%d", scale_info::meta_type::<%s>()),\n' % (i, t)
    s += '    ]\n}\n'
    return s


if __name__ == '__main__':
    mode = sys.argv[1]
    here = os.path.dirname(os.path.abspath(__file__))
    if mode == 'c03-stage0':
        seed, count = int(sys.argv[2]), int(sys.argv[3])
        src, roots = build_c03(seed, count)
        open(os.path.join(here, 'src', 'corpus_c03.rs'), 'w').write(emit_corpus('c03', src, roots))
        print(len(roots))
    elif mode == 'c04-stage0':
        roots, ctors = build_c04(int(sys.argv[3]) > 100, int(sys.argv[2]))
        open(os.path.join(here, 'src', 'corpus_c04.rs'), 'w').write(emit_corpus_c04(roots))
        print(len(roots))
    elif mode == 'c04-stage2':
        roots, ctors = build_c04(int(sys.argv[3]) > 100, int(sys.argv[2]))
        dump = json.load(open(sys.argv[4]))
        out, names, problems = emit_harnesses('c04', roots, dump, ctor=ctors)
        # types without a codec encoding (and unsized ones): documented shape only
        for i, (t, shape) in enumerate(SHAPE_ONLY_C04):
            d = dump.get('c04_S%d' % i)
            if d is None: problems['c04_S%d' % i] = {'type': t, 'problems': ['not dumped']}; continue
            df = d['types'][d['root']]['def']; k = list(shape)[0]
            ok = k in df and (shape[k] is None or (df[k] == shape[k] if k == 'primitive' else len(df[k]) == shape[k]))
            if not ok: problems['c04_S%d' % i] = {'type': t, 'problems': ['documented shape %s, described as %s' % (shape, json.dumps(df)[:120])]}
        open(os.path.join(here, 'src', 'c04_gen.rs'), 'w').write(out)
        print(json.dumps({'harnesses': names, 'problems': problems, 'types': [r.rust() for r in roots], 'shape_only': [t for t, _ in SHAPE_ONLY_C04]}))
    elif mode == 'c03-stage2':
        seed, count, dumpfile = int(sys.argv[2]), int(sys.argv[3]), sys.argv[4]
        src, roots = build_c03(seed, count)
        out, names, problems = emit_harnesses('c03', roots, json.load(open(dumpfile)))
        open(os.path.join(here, 'src', 'c03_gen.rs'), 'w').write(out)
        print(json.dumps({'harnesses': names, 'problems': problems, 'types': [r.rust() for r in roots]}))
