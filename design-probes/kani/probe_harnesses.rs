#![allow(unused)]
#[cfg(kani)]
mod proofs {
    use scale_info::{Path, PathError, PortableRegistry, PortableType, Type, TypeDef, TypeDefPrimitive, TypeDefArray, TypeDefSequence, TypeDefTuple, TypeDefCompact, TypeDefComposite, Field, form::PortableForm, interner::{Interner, UntrackedSymbol}, Registry, meta_type, TypeInfo};
    use scale::{Encode, Decode};

    fn leak_ascii(bytes: &[u8]) -> &'static str {
        let v: Vec<u8> = bytes.to_vec();
        let b: &'static [u8] = Box::leak(v.into_boxed_slice());
        unsafe { core::str::from_utf8_unchecked(b) }
    }

    fn model_ident(b: &[u8]) -> bool {
        let rest = if b.len() >= 2 && b[0] == b'r' && b[1] == b'#' { &b[2..] } else { b };
        if rest.is_empty() { return false; }
        let h = rest[0];
        if !(h == b'_' || (h >= b'a' && h <= b'z') || (h >= b'A' && h <= b'Z')) { return false; }
        let mut i = 1;
        while i < rest.len() {
            let c = rest[i];
            if !(c == b'_' || (c >= b'a' && c <= b'z') || (c >= b'A' && c <= b'Z') || (c >= b'0' && c <= b'9')) { return false; }
            i += 1;
        }
        true
    }

    #[kani::proof]
    #[kani::unwind(6)]
    fn ident3() {
        let len: usize = kani::any();
        kani::assume(len <= 3);
        let buf: [u8; 3] = kani::any();
        kani::assume(buf[0] < 0x80 && buf[1] < 0x80 && buf[2] < 0x80);
        let s = leak_ascii(&buf[..len]);
        let r = Path::from_segments([s]);
        let expect = model_ident(&buf[..len]);
        assert!(r.is_ok() == expect);
    }


    #[kani::proof]
    #[kani::unwind(8)]
    fn ident_fix5() {
        let buf: [u8; 5] = kani::any();
        kani::assume(buf[0] < 0x80 && buf[1] < 0x80 && buf[2] < 0x80 && buf[3] < 0x80 && buf[4] < 0x80);
        let b: &'static [u8; 5] = Box::leak(Box::new(buf));
        let s: &'static str = unsafe { core::str::from_utf8_unchecked(&b[..]) };
        let r = Path::from_segments([s]);
        let expect = model_ident(&buf[..]);
        assert!(r.is_ok() == expect);
    }

    #[kani::proof]
    #[kani::unwind(6)]
    fn interner_u8() {
        let mut it: Interner<u8> = Interner::new();
        let mut model: [u8; 4] = [0; 4];
        let mut n: usize = 0;
        let mut step = 0;
        while step < 4 {
            let v: u8 = kani::any();
            let (ins, sym) = it.intern_or_get(v);
            let id = sym.into_untracked().id as usize;
            // model
            let mut found = n;
            let mut j = 0;
            while j < n { if model[j] == v && found == n { found = j; } j += 1; }
            if found == n { model[n] = v; n += 1; assert!(ins); assert!(id == n - 1); } else { assert!(!ins); assert!(id == found); }
            assert!(it.elements().len() == n);
            step += 1;
        }
        let mut j = 0;
        while j < n { assert!(it.elements()[j] == model[j]); j += 1; }
    }


    #[kani::proof]
    #[kani::unwind(5)]
    fn interner3() {
        let mut it: Interner<u8> = Interner::new();
        let a: u8 = kani::any(); let b: u8 = kani::any(); let c: u8 = kani::any();
        let (i0, s0) = it.intern_or_get(a); let id0 = s0.into_untracked().id;
        let (i1, s1) = it.intern_or_get(b); let id1 = s1.into_untracked().id;
        let (i2, s2) = it.intern_or_get(c); let id2 = s2.into_untracked().id;
        assert!(i0 && id0 == 0);
        if b == a { assert!(!i1 && id1 == 0); } else { assert!(i1 && id1 == 1); }
        if c == a { assert!(!i2 && id2 == 0); } else if c == b { assert!(!i2 && id2 == 1); } else { assert!(i2 && id2 as usize == it.elements().len() - 1); }
    }


    fn stub_ident(_s: &str) -> bool { true }

    #[kani::proof]
    #[kani::unwind(8)]
    #[kani::stub(scale_info::utils::is_rust_identifier, stub_ident)]
    fn register_struct_stub() {
        let mut r = Registry::new();
        let id = r.register_type(&meta_type::<S>());
        assert!(id.id == 0);
        let p: PortableRegistry = r.into();
        assert!(p.types.len() == 4);
    }

    fn any_type8(n: u32) -> Type<PortableForm> {
        let kind: u8 = kani::any();
        kani::assume(kind < 8);
        let a: u32 = kani::any(); kani::assume(a < n);
        let b: u32 = kani::any(); kani::assume(b < n);
        let def: TypeDef<PortableForm> = match kind {
            0 => TypeDef::Primitive(TypeDefPrimitive::U8),
            1 => TypeDef::Sequence(TypeDefSequence::new(sym(a))),
            2 => TypeDef::Array(TypeDefArray::new(kani::any(), sym(a))),
            3 => TypeDef::Tuple(TypeDefTuple::new_portable([sym(a)])),
            4 => TypeDef::Compact(TypeDefCompact::new(sym(a))),
            5 => TypeDef::BitSequence(scale_info::TypeDefBitSequence::new_portable(sym(a), sym(b))),
            6 => TypeDef::Variant(scale_info::TypeDefVariant::new([scale_info::Variant::new(String::new(), vec![Field::new(None, sym(a), None, Vec::new())], kani::any(), Vec::new())])),
            _ => TypeDef::Composite(TypeDefComposite::new([Field::new(None, sym(a), None, Vec::new())])),
        };
        let has_param: bool = kani::any();
        let params = if has_param { vec![scale_info::TypeParameter::new_portable(String::new(), if kani::any() { Some(sym(b)) } else { None })] } else { vec![] };
        Type::new(Path::from_segments_unchecked([]), params, def, Vec::new())
    }

    #[kani::proof]
    #[kani::unwind(3)]
    fn retain2() {
        let n: u32 = 2;
        let mut reg = PortableRegistry { types: Vec::new() };
        reg.types.push(PortableType::new(0, any_type8(n)));
        reg.types.push(PortableType::new(1, any_type8(n)));
        let mask: u8 = kani::any();
        let map = reg.retain(|id| (mask >> id) & 1 == 1);
        let mut k = 0;
        while k < reg.types.len() { assert!(reg.types[k].id == k as u32); k += 1; }
        assert!(map.len() == reg.types.len());
        core::mem::forget(reg); core::mem::forget(map);
    }


    #[kani::proof]
    #[kani::unwind(8)]
    fn json_value() {
        let id: u32 = kani::any();
        let ty: Type<PortableForm> = Type::new(Path::from_segments_unchecked([]), [], TypeDef::Sequence(TypeDefSequence::new(sym(id))), Vec::new());
        let v = serde_json::to_value(&ty).unwrap();
        let def = v.get("def").unwrap();
        let seq = def.get("sequence").unwrap();
        assert!(seq.get("type").unwrap().as_u64() == Some(id as u64));
        assert!(v.get("path").is_none());
        core::mem::forget(v);
    }


    fn stub_nwr(ident: &'static str, _m: &'static str, _r: &[(&'static str, &'static str)]) -> Path {
        Path::from_segments_unchecked(["m", ident])
    }

    #[kani::proof]
    #[kani::unwind(8)]
    #[kani::stub(scale_info::utils::is_rust_identifier, stub_ident)]
    #[kani::stub(scale_info::Path::new_with_replace, stub_nwr)]
    fn register_struct_stub2() {
        let mut r = Registry::new();
        let id = r.register_type(&meta_type::<S>());
        assert!(id.id == 0);
        let p: PortableRegistry = r.into();
        assert!(p.types.len() == 4);
    }


    #[kani::proof]
    #[kani::unwind(12)]
    fn roundtrip_type() {
        let kind: u8 = kani::any();
        kani::assume(kind < 4);
        let a: u32 = kani::any();
        let def: TypeDef<PortableForm> = match kind {
            0 => TypeDef::Primitive(TypeDefPrimitive::U8),
            1 => TypeDef::Sequence(TypeDefSequence::new(sym(a))),
            2 => TypeDef::Array(TypeDefArray::new(kani::any(), sym(a))),
            _ => TypeDef::Compact(TypeDefCompact::new(sym(a))),
        };
        let ty: Type<PortableForm> = Type::new(Path::from_segments_unchecked([]), [], def, Vec::new());
        let bytes = ty.encode();
        let mut inp = &bytes[..];
        let back = <Type<PortableForm> as Decode>::decode(&mut inp);
        match back { Ok(t) => { assert!(t == ty); assert!(inp.is_empty()); core::mem::forget(t); } Err(_) => assert!(false) }
        core::mem::forget(ty); core::mem::forget(bytes);
    }


    #[kani::proof]
    #[kani::unwind(7)]
    fn compact_decode5() {
        let buf: [u8; 5] = kani::any();
        let len: usize = kani::any();
        kani::assume(len <= 5);
        let mut input = &buf[..len];
        let r = <scale::Compact<u32> as Decode>::decode(&mut input);
        if let Ok(c) = r {
            let used = len - input.len();
            let enc = c.encode();
            assert!(enc.len() == used);
            let mut i = 0;
            while i < used { assert!(enc[i] == buf[i]); i += 1; }
            kani::cover!(used == 4);
        }
    }

    #[kani::proof]
    #[kani::unwind(10)]
    fn array_decode9() {
        let buf: [u8; 9] = kani::any();
        let len: usize = kani::any();
        kani::assume(len <= 9);
        let mut input = &buf[..len];
        let r = <TypeDefArray<PortableForm> as Decode>::decode(&mut input);
        if let Ok(a) = r {
            let used = len - input.len();
            let enc = a.encode();
            assert!(enc.len() == used);
            let mut i = 0;
            while i < used { assert!(enc[i] == buf[i]); i += 1; }
            kani::cover!(used == 8);
        }
    }


    #[kani::proof]
    #[kani::unwind(8)]
    fn field_decode6() {
        let buf: [u8; 6] = kani::any();
        let len: usize = kani::any();
        kani::assume(len <= 6);
        let mut input = &buf[..len];
        let r = <Field<PortableForm> as Decode>::decode(&mut input);
        if let Ok(a) = r {
            let used = len - input.len();
            let enc = a.encode();
            assert!(enc.len() == used);
            let mut i = 0;
            while i < used { assert!(enc[i] == buf[i]); i += 1; }
            kani::cover!(used == 6);
            core::mem::forget(a); core::mem::forget(enc);
        }
    }

    #[kani::proof]
    #[kani::unwind(8)]
    fn tuple_decode4() {
        let buf: [u8; 4] = kani::any();
        let len: usize = kani::any();
        kani::assume(len <= 4);
        let mut input = &buf[..len];
        let r = <TypeDefTuple<PortableForm> as Decode>::decode(&mut input);
        if let Ok(a) = r {
            let used = len - input.len();
            let enc = a.encode();
            assert!(enc.len() == used);
            let mut i = 0;
            while i < used { assert!(enc[i] == buf[i]); i += 1; }
            kani::cover!(a.fields.len() == 3);
            core::mem::forget(a); core::mem::forget(enc);
        }
    }


    #[derive(scale_info::TypeInfo, Encode)]
    struct S3 { a: u8, #[codec(compact)] b: u32, c: Option<bool>, d: (u16, i64) }
    #[derive(scale_info::TypeInfo, Encode)]
    enum E3 { A, #[codec(index = 7)] B(u8, S3), C { x: Vec<u8> } }

    struct Rd<'a> { b: &'a [u8], p: usize, ok: bool }
    impl<'a> Rd<'a> {
        fn u8(&mut self) -> u8 { if self.p < self.b.len() { let v = self.b[self.p]; self.p += 1; v } else { self.ok = false; 0 } }
        fn le(&mut self, n: usize) -> u64 {
            match n {
                1 => self.u8() as u64,
                2 => { let a = self.u8() as u64; let b = self.u8() as u64; a | b << 8 }
                3 => { let a = self.u8() as u64; let b = self.u8() as u64; let c = self.u8() as u64; a | b << 8 | c << 16 }
                4 => { let a = self.le(2); let b = self.le(2); a | b << 16 }
                8 => { let a = self.le(4); let b = self.le(4); a | b << 32 }
                _ => { self.ok = false; 0 }
            }
        }
        fn compact(&mut self) -> u64 {
            let b0 = self.u8();
            match b0 & 3 {
                0 => (b0 >> 2) as u64,
                1 => { let b1 = self.u8(); (((b1 as u64) << 8 | b0 as u64) >> 2) }
                2 => { let r = self.le(3); ((r << 8 | b0 as u64) >> 2) }
                _ => { if b0 != 3 { self.ok = false; 0 } else { self.le(4) } }
            }
        }
    }
    // "generated from metadata": E3 = variant{ A idx0; B idx7 (u8, S3{a:u8,b:compact u32,c:Option<bool>,d:(u16,i64)}); C idx2 {x: seq<u8>} }
    struct FixedOut { buf: [u8; 24], n: usize }
    impl scale::Output for FixedOut {
        fn write(&mut self, bytes: &[u8]) { let mut i = 0; while i < bytes.len() { if self.n < 24 { self.buf[self.n] = bytes[i]; } self.n += 1; i += 1; } }
    }
    #[derive(PartialEq, Eq)]
    struct Leaves { n: usize, v: [u64; 12] }
    impl Leaves { fn push(&mut self, x: u64) { if self.n < 12 { self.v[self.n] = x; } self.n += 1; } }
    fn meta_decode_e3(r: &mut Rd, l: &mut Leaves) {
        let idx = r.u8(); l.push(idx as u64);
        match idx {
            0 => {}
            7 => { l.push(r.le(1)); l.push(r.le(1)); l.push(r.compact()); let t = r.u8(); l.push(t as u64); if t == 1 { l.push(r.le(1)); } else if t != 0 { r.ok = false; } l.push(r.le(2)); l.push(r.le(8)); }
            2 => { let n = r.compact(); l.push(n); if n > 2 { r.ok = false; } else { if n > 0 { l.push(r.le(1)); } if n > 1 { l.push(r.le(1)); } } }
            _ => { r.ok = false; }
        }
    }
    fn flatten_e3(v: &E3, l: &mut Leaves) {
        match v {
            E3::A => { l.push(0); }
            E3::B(x, s) => { l.push(7); l.push(*x as u64); l.push(s.a as u64); l.push(s.b as u64); match s.c { None => l.push(0), Some(b) => { l.push(1); l.push(b as u64); } } l.push(s.d.0 as u64); l.push(s.d.1 as u64); }
            E3::C { x } => { l.push(2); l.push(x.len() as u64); if x.len() > 0 { l.push(x[0] as u64); } if x.len() > 1 { l.push(x[1] as u64); } }
        }
    }
    #[kani::proof]
    #[kani::unwind(14)]
    fn value_e3() {
        let which: u8 = kani::any();
        let v = match which % 3 {
            0 => E3::A,
            1 => E3::B(kani::any(), S3 { a: kani::any(), b: kani::any(), c: kani::any(), d: (kani::any(), kani::any()) }),
            _ => { let n: usize = kani::any(); kani::assume(n <= 2); let arr: [u8; 2] = kani::any(); E3::C { x: arr[..n].to_vec() } }
        };
        let mut out = FixedOut { buf: [0; 24], n: 0 };
        v.encode_to(&mut out);
        assert!(out.n <= 24);
        let bytes = &out.buf[..out.n];
        let mut r = Rd { b: bytes, p: 0, ok: true };
        let mut got = Leaves { n: 0, v: [0; 12] };
        meta_decode_e3(&mut r, &mut got);
        let mut want = Leaves { n: 0, v: [0; 12] };
        flatten_e3(&v, &mut want);
        assert!(r.ok);
        assert!(r.p == bytes.len());
        assert!(got.n == want.n);
        let mut i = 0; while i < 12 { assert!(got.v[i] == want.v[i]); i += 1; }
        core::mem::forget(v);
    }

    fn sym(id: u32) -> UntrackedSymbol<core::any::TypeId> { id.into() }

    fn any_type(n: u32) -> Type<PortableForm> {
        let kind: u8 = kani::any();
        kani::assume(kind < 5);
        let a: u32 = kani::any(); kani::assume(a < n);
        let b: u32 = kani::any(); kani::assume(b < n);
        let def: TypeDef<PortableForm> = match kind {
            0 => TypeDef::Primitive(TypeDefPrimitive::U8),
            1 => TypeDef::Sequence(TypeDefSequence::new(sym(a))),
            2 => TypeDef::Array(TypeDefArray::new(kani::any(), sym(a))),
            3 => TypeDef::Tuple(TypeDefTuple::new_portable([sym(a), sym(b)])),
            _ => TypeDef::Composite(TypeDefComposite::new([Field::new(None, sym(a), None, Vec::new())])),
        };
        Type::new(Path::from_segments_unchecked([]), [], def, Vec::new())
    }

    #[kani::proof]
    #[kani::unwind(5)]
    fn retain3() {
        let n: u32 = 3;
        let mut reg = PortableRegistry { types: Vec::new() };
        let mut i = 0;
        while i < n { reg.types.push(PortableType::new(i, any_type(n))); i += 1; }
        let mask: u8 = kani::any();
        let map = reg.retain(|id| (mask >> id) & 1 == 1);
        // dense
        let mut k = 0;
        while k < reg.types.len() { assert!(reg.types[k].id == k as u32); k += 1; }
        assert!(map.len() == reg.types.len());
    }

    #[kani::proof]
    #[kani::unwind(6)]
    fn encode_field() {
        let id: u32 = kani::any();
        let f: Field<PortableForm> = Field::new(None, sym(id), None, Vec::new());
        let bytes = f.encode();
        assert!(bytes.len() >= 4);
        assert!(bytes[0] == 0);
        if id < 64 { assert!(bytes.len() == 4 && bytes[1] == (id as u8) << 2); }
    }

    #[kani::proof]
    #[kani::unwind(10)]
    fn decode8() {
        let buf: [u8; 8] = kani::any();
        let len: usize = kani::any();
        kani::assume(len <= 8);
        let mut input = &buf[..len];
        let r = PortableRegistry::decode(&mut input);
        if let Ok(reg) = r {
            kani::cover!(reg.types.len() == 1);
            assert!(reg.types.len() <= 8);
        }
    }

    #[kani::proof]
    #[kani::unwind(4)]
    fn register_u8() {
        let mut r = Registry::new();
        let id = r.register_type(&meta_type::<u8>());
        assert!(id.id == 0);
        let p: PortableRegistry = r.into();
        assert!(p.types.len() == 1);
    }

    #[derive(scale_info::TypeInfo, Encode)]
    struct S { a: u8, #[codec(compact)] b: u32 }

    #[kani::proof]
    #[kani::unwind(8)]
    fn register_struct() {
        let mut r = Registry::new();
        let id = r.register_type(&meta_type::<S>());
        assert!(id.id == 0);
        let p: PortableRegistry = r.into();
        assert!(p.types.len() == 4);
    }
}
