#!/usr/bin/env python3
"""mirsym prototype v2: explicit-state machine (world = heap + stack + path condition), fork = deepcopy(world)."""
import re, sys, copy, time, collections
import z3

# ------------------------------------------------------------------ MIR parsing
class Fn:
    def __init__(self, name, header):
        self.name, self.header, self.blocks, self.nargs = name, header, {}, 0
        self.ret = header.rsplit(' -> ', 1)[1][:-2] if ' -> ' in header else '()'
        self.args = []

def parse_mir(path):
    fns, cur, bb = {}, None, None
    for line in open(path):
        line = line.rstrip('\n')
        m = re.match(r'^fn (.+?)\((.*)\) -> (.+) \{$', line)
        if m:
            f = Fn(m.group(1), line)
            f.args = re.findall(r'_\d+: ([^,]+(?:<[^>]*>)?[^,]*)', m.group(2))
            f.nargs = len(re.findall(r'(?:^|, )_\d+: ', m.group(2)))
            f.argstr = m.group(2)
            cur = f if f.name not in fns else Fn('__dup__', line)
            if f.name not in fns: fns[f.name] = f
            bb = None; continue
        if cur is None: continue
        if line == '}': cur = None; continue
        m = re.match(r'^    (bb\d+)( \(cleanup\))?: \{$', line)
        if m: bb = m.group(1); cur.blocks[bb] = []; continue
        if line == '    }': bb = None; continue
        if bb and line.startswith('        '): cur.blocks[bb].append(line.strip())
    return fns

def scan_decls(srcdir):
    """struct field order and enum variant order from the Rust sources."""
    import glob
    structs, variants = {}, {}
    for p in glob.glob(srcdir + '/**/*.rs', recursive=True):
        txt = open(p).read()
        for m in re.finditer(r'pub struct (\w+)[^;{(]*\{(.*?)\n\}', txt, re.S):
            fields = re.findall(r'^\s*(?:pub(?:\([a-z]+\))? )?(\w+):', re.sub(r'(?m)^\s*(//|#\[).*$|^\s*\)\]$|^\s*(feature|serde|deserialize|serialize).*$', '', m.group(2)), re.M)
            structs[m.group(1)] = fields
        for m in re.finditer(r'pub enum (\w+)[^;{(]*\{(.*?)\n\}', txt, re.S):
            body = re.sub(r'(?m)^\s*(//|#\[).*$', '', m.group(2))
            vs = re.findall(r'^\s*(\w+)\s*(?:\(|\{|,|$)', body, re.M)
            variants[m.group(1)] = vs
    return structs, variants

# ------------------------------------------------------------------ values
class EnumV:
    def __init__(self, discr, payloads): self.discr, self.payloads = discr, payloads
class VecV:
    def __init__(self, ln, elems): self.len, self.elems = ln, elems      # ln: z3 BV64 ; elems: python list (capacity)
class MapV:
    def __init__(self, present, val): self.present, self.val = present, val
class IterV:
    def __init__(self, vref, idx): self.vref, self.idx = vref, idx
class Ref:
    def __init__(self, addr, path=()): self.addr, self.path = addr, tuple(path)
class Tok:
    def __init__(self, name): self.name = name
    def __deepcopy__(self, memo): return self
    def __repr__(self): return 'Tok(%s)' % self.name
class ClosureV:
    def __init__(self, span, caps): self.span, self.caps = span, caps
class ModelFrame:
    """re-entrant std model: start() / resume(value) may push child calls via M.invoke"""
    is_model = True
    def __init__(self, dest, retbb): self.dest, self.retbb = dest, retbb
class Frame:
    is_model = False
    def __init__(self, fn, dest=None, retbb=None): self.fn, self.loc, self.bb, self.i, self.dest, self.retbb = fn, {}, 'bb0', 0, dest, retbb
class World:
    def __init__(self): self.heap, self.stack, self.pc, self.next, self.aux, self.depth = {}, [], [], 1, {}, 0
    def alloc(self, v):
        a = self.next; self.next += 1; self.heap[a] = v; return a

class Inconclusive(Exception): pass
# z3 ASTs are immutable: share them across forked worlds instead of translating them
for _c in (z3.ExprRef, z3.BoolRef, z3.BitVecRef, z3.BitVecNumRef, z3.ArrayRef, z3.QuantifierRef, z3.ArithRef):
    _c.__deepcopy__ = lambda self, memo: self

BITS = {'u8': 8, 'u16': 16, 'u32': 32, 'u64': 64, 'usize': 64, 'i8': 8, 'i16': 16, 'i32': 32, 'i64': 64, 'isize': 64}
def bv(v, w): return z3.BitVecVal(v, w)

def split_top(s, sep=','):
    out, depth, cur = [], 0, ''
    i = 0
    instr = False
    while i < len(s):
        ch = s[i]
        if ch == '"' and (i == 0 or s[i - 1] != '\\'): instr = not instr
        if instr: cur += ch; i += 1; continue
        if ch in '([{<': depth += 1
        elif ch in ')]}' or (ch == '>' and s[i - 1] != '-'): depth -= 1
        if ch == sep and depth == 0: out.append(cur.strip()); cur = ''
        else: cur += ch
        i += 1
    if cur.strip(): out.append(cur.strip())
    return out

class Machine:
    def __init__(self, fns, structs, variants, models):
        self.fns, self.structs, self.variants, self.models = fns, structs, variants, models
        self.solver = z3.Solver()
        self.stats = collections.Counter(); self.solver_time = 0.0
        self.vindex = {'None': 0, 'Some': 1, 'Ok': 0, 'Err': 1, 'Vacant': 0, 'Occupied': 1}
        for e, vs in variants.items():
            for i, v in enumerate(vs): self.vindex.setdefault(v, i) if e != 'TypeDef' else self.vindex.__setitem__(v, i)
        self.callees = set()

    # ---- solver
    def sat(self, w, extra):
        self.stats['queries'] += 1; t = time.time()
        self.solver.push(); self.solver.add(*w.pc); self.solver.add(extra)
        r = self.solver.check(); self.solver.pop(); self.solver_time += time.time() - t
        if r == z3.unknown: raise Inconclusive('unknown')
        return r == z3.sat

    # ---- memory
    def walk(self, w, ref):
        o = w.heap[ref.addr]
        for p in ref.path:
            o = self.step_into(o, p)
        return o
    def step_into(self, o, p):
        if isinstance(p, int): return o.caps[p] if isinstance(o, ClosureV) else o[p]
        k, i = p
        if k == 'v': return o.payloads[i]
        if k == 'e': return o.elems[i]
        raise Inconclusive('path ' + str(p))
    def load(self, w, ref): return self.walk(w, ref)
    def store(self, w, ref, v):
        if not ref.path: w.heap[ref.addr] = v; return
        o = w.heap[ref.addr]
        for p in ref.path[:-1]: o = self.step_into(o, p)
        p = ref.path[-1]
        if isinstance(p, int): o[p] = v
        elif p[0] == 'v': o.payloads[p[1]] = v
        elif p[0] == 'e': o.elems[p[1]] = v

    # ---- places: returns list of (cond, Ref) alternatives (forks on symbolic index)
    def place(self, w, fr, s):
        s = s.strip()
        m = re.fullmatch(r'_(\d+)', s)
        if m:
            n = int(m.group(1))
            if n not in fr.loc: fr.loc[n] = w.alloc(None)
            return Ref(fr.loc[n])
        if s.startswith('(*') and s.endswith(')') and self._balanced(s[1:-1][1:]):
            inner = self.load(w, self.place(w, fr, s[2:-1]))
            if not isinstance(inner, Ref): raise Inconclusive('deref non-ref ' + s)
            return inner
        m = re.fullmatch(r'\((.+) as (\w+)\)', s)
        if m and self._balanced(m.group(1)):
            r = self.place(w, fr, m.group(1))
            return Ref(r.addr, r.path + (('v', self.vindex[m.group(2)]),))
        if s.startswith('(') and s.endswith(')'):
            inner = s[1:-1]; depth = 0
            for i, ch in enumerate(inner):
                if ch in '([': depth += 1
                elif ch in ')]': depth -= 1
                elif ch == '.' and depth == 0:
                    mm = re.match(r'\.(\d+): ', inner[i:])
                    if mm:
                        r = self.place(w, fr, inner[:i])
                        return Ref(r.addr, r.path + (int(mm.group(1)),))
        m = re.fullmatch(r'(.+)\[(_\d+)\]', s)
        if m:
            r = self.place(w, fr, m.group(1))
            idx = self.load(w, self.place(w, fr, m.group(2)))
            k = self.concrete(w, idx)
            return Ref(r.addr, r.path + (('e', k),))
        raise Inconclusive('place: ' + s)
    def _balanced(self, s):
        d = 0
        for ch in s:
            if ch == '(': d += 1
            elif ch == ')':
                d -= 1
                if d < 0: return False
        return d == 0

    def concrete(self, w, v):
        """value must be concrete on this path (the machine concretises indices by forking beforehand)."""
        if isinstance(v, int): return v
        s = z3.simplify(v)
        if z3.is_bv_value(s): return s.as_long()
        self.solver.push(); self.solver.add(*w.pc)
        assert self.solver.check() == z3.sat
        val = self.solver.model().eval(v, model_completion=True)
        self.solver.add(v != val); uniq = self.solver.check() == z3.unsat
        self.solver.pop(); self.stats['queries'] += 2
        if uniq: return val.as_long()
        raise NeedFork(v)

    def operand(self, w, fr, s):
        s = s.strip()
        if s.startswith('no_retag '): s = s[9:]
        if s.startswith('copy ') or s.startswith('move '): return self.load(w, self.place(w, fr, s[5:]))
        if s.startswith('const '): return self.const(s[6:])
        raise Inconclusive('operand: ' + s)
    def const(self, s):
        s = s.strip()
        if s == 'true': return z3.BoolVal(True)
        if s == 'false': return z3.BoolVal(False)
        m = re.fullmatch(r'(-?\d+)_(\w+)', s)
        if m and m.group(2) in BITS: return bv(int(m.group(1)), BITS[m.group(2)])
        if s == 'core::num::<impl u32>::MAX': return bv(2**32 - 1, 32)
        if s.startswith('ZeroSized'): return None
        if s == '()': return []
        if s.startswith('"'): return Tok(s)
        if 'promoted[' in s: return Ref(-1)
        raise Inconclusive('const: ' + s)

    def rvalue(self, w, fr, s):
        s = s.strip()
        m = re.fullmatch(r'(Eq|Ne|Lt|Le|Gt|Ge)\((.+), (.+)\)', s)
        if m:
            a, b = [self.operand(w, fr, x) for x in split_top(s[len(m.group(1)) + 1:-1])]
            return {'Eq': lambda: a == b, 'Ne': lambda: a != b, 'Lt': lambda: z3.ULT(a, b), 'Le': lambda: z3.ULE(a, b), 'Gt': lambda: z3.UGT(a, b), 'Ge': lambda: z3.UGE(a, b)}[m.group(1)]()
        if s.startswith('&raw const (fake) '): return self.place(w, fr, s[len('&raw const (fake) '):])
        if s.startswith('&mut '): return self.place(w, fr, s[5:])
        if s.startswith('&'): return self.place(w, fr, s[1:])
        m = re.fullmatch(r'PtrMetadata\((.+)\)', s)
        if m: return self.load(w, self.operand(w, fr, m.group(1))).len
        m = re.fullmatch(r'discriminant\((.+)\)', s)
        if m:
            e = self.load(w, self.place(w, fr, m.group(1)))
            return e.discr if not isinstance(e.discr, int) else bv(e.discr, 64)
        m = re.fullmatch(r'(.+) as (\w+) \(IntToInt\)', s)
        if m:
            v = self.operand(w, fr, m.group(1)); wd = BITS[m.group(2)]
            return z3.simplify(z3.Extract(wd - 1, 0, v) if v.size() > wd else (z3.ZeroExt(wd - v.size(), v) if v.size() < wd else v))
        m = re.fullmatch(r'\{closure@(.+?)\} \{ (.*) \}', s)
        if m:
            return ClosureV(m.group(1), [self.operand(w, fr, a.split(': ', 1)[1]) for a in split_top(m.group(2))])
        m = re.fullmatch(r'([\w:<>\', ]+?)(?:::<.*?>)? \{ (.*) \}', s)
        if m and not s.startswith(('copy', 'move')):
            name = re.sub(r'::<.*', '', m.group(1)).split('::')[-1]
            kv = dict((a.split(': ', 1)[0], a.split(': ', 1)[1]) for a in split_top(m.group(2)))
            order = {'Range': ['start', 'end']}.get(name) or self.structs.get(name)
            if order is None: raise Inconclusive('struct decl ' + name)
            return [self.operand(w, fr, kv[f]) for f in order]
        m = re.fullmatch(r'([\w:<>\', ]+)::(\w+)\((.*)\)', s)
        if m and m.group(2) in self.vindex and not s.startswith(('copy', 'move')):
            k = self.vindex[m.group(2)]
            return EnumV(k, {k: [self.operand(w, fr, a) for a in split_top(m.group(3))]})
        m = re.fullmatch(r'([\w:<>\', ]+)::(\w+)', s)
        if m and m.group(2) in self.vindex and not s.startswith(('copy', 'move', 'const')):
            k = self.vindex[m.group(2)]; return EnumV(k, {k: []})
        if s.startswith('(') and s.endswith(')') and not s.startswith('(*'):
            parts = split_top(s[1:-1])
            if all(p.startswith(('copy ', 'move ', 'const ')) for p in parts): return [self.operand(w, fr, p) for p in parts]
        return self.operand(w, fr, s)

    # ---- running
    def run(self, w0, on_return, on_panic, max_steps=200000, max_depth=64):
        work = [w0]
        while work:
            w = work.pop()
            steps = 0
            while True:
                steps += 1
                if steps > max_steps: on_panic(w, 'step budget'); break
                if len(w.stack) > max_depth: on_panic(w, 'depth budget'); break
                try:
                    r = w.aux.pop('pending_action', None) or self.step(w)
                except NeedFork as nf:
                    # concretise nf.v by enumeration of feasible values
                    vals = self.enum_values(w, nf.v)
                    for val in vals:
                        w2 = copy.deepcopy(w); w2.pc.append(nf.v == val); work.append(w2)
                    self.stats['index_forks'] += 1
                    break
                if r is None: continue
                kind = r[0]
                if kind == 'fork':
                    for cond, cont in r[1]:
                        c = z3.simplify(cond)
                        if z3.is_false(c): continue
                        if not z3.is_true(c) and not self.sat(w, c): continue
                        w2 = copy.deepcopy(w) if len(r[1]) > 1 else w
                        if not z3.is_true(c): w2.pc.append(c)
                        cont(w2)
                        pend = w2.aux.pop('pending', None)
                        if pend is not None: w2.aux['pending_action'] = pend
                        work.append(w2)
                    self.stats['forks'] += 1
                    break
                if kind == 'done': on_return(w, r[1]); self.stats['paths'] += 1; break
                if kind == 'panic': on_panic(w, r[1]); self.stats['panics'] += 1; break

    def enum_values(self, w, v, limit=16):
        out = []
        self.solver.push(); self.solver.add(*w.pc)
        while len(out) < limit and self.solver.check() == z3.sat:
            val = self.solver.model().eval(v, model_completion=True); out.append(val); self.solver.add(v != val)
        self.solver.pop()
        return out

    def invoke(self, w, callee, args):
        """call from a model frame: result is delivered to that model frame's resume()"""
        return self.call(w, None, None, callee, args, None)

    def step(self, w):
        fr = w.stack[-1]
        if fr.is_model: raise Inconclusive('model frame stepped without pending child')
        lines = fr.fn.blocks[fr.bb]
        ln = lines[fr.i].rstrip(';')
        last = fr.i == len(lines) - 1
        if not last:
            if not ln.startswith(('StorageLive', 'StorageDead', 'nop', 'FakeRead', 'PlaceMention', 'Retag', 'AscribeUserType', 'Coverage', 'ConstEvalCounter')):
                lhs, rhs = ln.split(' = ', 1)
                v = self.rvalue(w, fr, rhs)
                self.store(w, self.place(w, fr, lhs), v)
            fr.i += 1
            return None
        t = ln
        def goto(fr, bb): fr.bb, fr.i = bb, 0
        if t == 'return':
            rv = w.heap.get(fr.loc.get(0)) if 0 in fr.loc else None
            w.stack.pop()
            if not w.stack: return ('done', rv)
            return self.deliver(w, fr.dest, fr.retbb, rv)
        if t in ('unreachable',): raise Inconclusive('unreachable reached in ' + fr.fn.name)
        m = re.fullmatch(r'goto -> (bb\d+)', t)
        if m: goto(fr, m.group(1)); return None
        m = re.fullmatch(r'drop\((.+)\) -> \[return: (bb\d+), unwind.*\]', t)
        if m: goto(fr, m.group(2)); return None
        m = re.fullmatch(r'switchInt\((.+)\) -> \[(.+)\]', t)
        if m:
            v = self.operand(w, fr, m.group(1)); alts, seen = [], []
            for part in m.group(2).split(', '):
                key, tgt = part.split(': ')
                if key == 'otherwise': cond = z3.And([self.neq(v, c) for c in seen]) if seen else z3.BoolVal(True)
                else: c = int(key); seen.append(c); cond = z3.Not(self.neq(v, c))
                alts.append((cond, (lambda tgt: (lambda w2: goto(w2.stack[-1], tgt)))(tgt)))
            return ('fork', alts)
        m = re.fullmatch(r'assert\((!?)(.+?), ".*\) -> \[success: (bb\d+), unwind.*\]', t)
        if m:
            c = self.operand(w, fr, m.group(2))
            if m.group(1): c = z3.Not(c)
            ok = (lambda tgt: (lambda w2: goto(w2.stack[-1], tgt)))(m.group(3))
            def bad(w2): w2.stack[-1].bb = '__panic__'
            if self.sat(w, z3.Not(c)): return ('panic', 'assert failed: ' + t[:80])
            goto(fr, m.group(3)); return None
        m = re.fullmatch(r'(.+?) = (.+)\) -> \[return: (bb\d+), unwind.*\]', t)
        if m:
            dest, body, ret = m.groups()
            depth, k = 1, len(body) - 1
            while k >= 0:
                if body[k] == ')': depth += 1
                elif body[k] == '(':
                    depth -= 1
                    if depth == 0: break
                k -= 1
            callee, argstr = body[:k], body[k + 1:]
            args = [self.operand(w, fr, a) for a in split_top(argstr)] if argstr.strip() else []
            return self.call(w, fr, dest, callee, args, ret)
        raise Inconclusive('terminator: ' + t)

    def neq(self, v, c):
        if z3.is_bool(v): return z3.Not(v) if c else v
        return v != bv(c, v.size())

    def deliver(self, w, dest, ret, val):
        """hand a finished call's value to the frame now on top of the stack"""
        top = w.stack[-1]
        if top.is_model: return top.resume(self, w, val)
        if dest is not None: self.store(w, self.place(w, top, dest), val)
        top.bb, top.i = ret, 0
        return None

    def call(self, w, fr, dest, callee, args, ret):
        callee = self.normalise(callee)
        self.callees.add(callee)
        for pat, model in self.models:
            if re.fullmatch(pat, callee):
                r = model(self, w, args) if not getattr(model, 'wants_callee', False) else model(self, w, args, callee)
                if isinstance(r, ModelFrame):
                    r.dest, r.retbb = dest, ret
                    w.stack.append(r); return r.start(self, w)
                if isinstance(r, Fork):
                    def mk(th):
                        def k(w2):
                            val = th(w2) if callable(th) else th
                            res = self.deliver(w2, dest, ret, val)
                            if res is not None: w2.aux['pending'] = res
                        return k
                    return ('fork', [(c, mk(th)) for c, th in r])
                if isinstance(r, tuple) and r and r[0] == 'panic': return r
                return self.deliver(w, dest, ret, r)
        fn = self.resolve(callee)
        if fn is None: raise Inconclusive('unmodelled callee: ' + callee)
        nf = Frame(fn, dest, ret)
        for i, a in enumerate(args): nf.loc[i + 1] = w.alloc(a)
        w.stack.append(nf); return None

    def normalise(self, c):
        c = c.replace('<T as Form>::Type', 'UntrackedSymbol<TypeId>').replace('<T as form::Form>::Type', 'UntrackedSymbol<TypeId>')
        c = c.replace('<T as Form>::String', 'String').replace('<PortableForm as Form>::String', 'String').replace('<PortableForm as Form>::Type', 'UntrackedSymbol<TypeId>')
        c = re.sub(r'<T>', '<PortableForm>', c)
        c = re.sub(r'::<__Codec\w+>$', '', c)
        return c

    def resolve(self, callee):
        if callee in self.fns: return self.fns[callee]
        m = re.fullmatch(r'<\{closure@(.+?)\} as Fn(?:Mut|Once)?<\(.*\)>>::call(?:_mut|_once)?', callee)
        if m:
            c = [f for n, f in self.fns.items() if '{closure@' + m.group(1) + '}' in f.argstr]
            if len(c) > 1:
                nargs = 1 + (0 if re.search(r'<\(\)>>', callee) else 1 + callee.split('<(')[1].split(')>>')[0].count(',') - (1 if callee.split('<(')[1].split(')>>')[0].endswith(',') else 0))
                c = [f for f in c if f.nargs == nargs]
            if len(c) >= 1: return c[0]
        m = re.fullmatch(r'<(.+) as (Decode|Encode)>::(decode|encode_to)', callee)
        if m:
            base = re.sub(r'<.*', '', m.group(1)).split('::')[-1]
            meth = m.group(3)
            c = [f for n, f in self.fns.items() if n.endswith('::' + meth) and (re.search(r'Result<(?:\w+::)*' + base + r'\b', f.ret) if meth == 'decode' else re.search(r'_1: &(?:\w+::)*' + base + r'\b', f.argstr))]
            if len(c) == 1: return c[0]
        m = re.fullmatch(r'<(.+) as (.+?)>::(\w+)', callee)
        if m:
            self_ty, trait, meth = m.groups()
            if meth == 'into':
                tgt = re.match(r'Into<(\w+)', trait).group(1)
                c = [f for n, f in self.fns.items() if n.endswith('::from') and tgt in f.ret]
            else:
                base = re.sub(r'<.*', '', self_ty).split('::')[-1]
                c = [f for n, f in self.fns.items() if n.endswith('::' + meth) and (base in f.ret or base in f.argstr)]
            if len(c) == 1: return c[0]
        return None

class Fork(list): pass
class NeedFork(Exception):
    def __init__(self, v): self.v = v

# ------------------------------------------------------------------ std models
def m_vec_new(M, w, a): return VecV(bv(0, 64), [])
def m_vec_len(M, w, a): return M.load(w, a[0]).len
def m_vec_push(M, w, a):
    v = M.load(w, a[0]); k = M.concrete(w, v.len)
    while len(v.elems) <= k: v.elems.append(None)
    v.elems[k] = a[1]; v.len = bv(k + 1, 64); return None
def m_ident(M, w, a): return a[0]
def m_index_mut(M, w, a):
    v = M.load(w, a[0]); k = M.concrete(w, a[1])
    if not M.sat(w, z3.ULT(bv(k, 64), v.len)): return ('panic', 'index out of bounds')
    return Ref(a[0].addr, a[0].path + (('e', k),))
def m_iter_mut(M, w, a): return IterV(a[0], 0)
def m_iter_next(M, w, a):
    it = M.load(w, a[0]); v = M.load(w, it.vref); i = it.idx
    alts = Fork()
    if i < len(v.elems):
        def some(w2):
            it2 = M.load(w2, a[0]); it2.idx = i + 1
            return EnumV(1, {1: [Ref(it2.vref.addr, it2.vref.path + (('e', i),))]})
        alts.append((z3.ULT(bv(i, 64), v.len), some))
    alts.append((z3.Not(z3.ULT(bv(i, 64), v.len)), lambda w2: EnumV(0, {0: []})))
    return alts
def m_range_next(M, w, a):
    r = M.load(w, a[0]); s, e = r
    def some(w2):
        r2 = M.load(w2, a[0]); r2[0] = z3.simplify(s + 1)
        return EnumV(1, {1: [s]})
    return Fork([(z3.ULT(s, e), some), (z3.Not(z3.ULT(s, e)), lambda w2: EnumV(0, {0: []}))])
def m_map_new(M, w, a):
    return MapV(z3.K(z3.BitVecSort(32), z3.BoolVal(False)), z3.K(z3.BitVecSort(32), bv(0, 32)))
def m_map_get(M, w, a):
    m = M.load(w, a[0]); k = M.load(w, a[1])
    hit = z3.Select(m.present, k)
    def some(w2):
        return EnumV(1, {1: [Ref(w2.alloc(z3.Select(m.present, k) if False else z3.Select(m.val, k)))]})
    return Fork([(hit, some), (z3.Not(hit), lambda w2: EnumV(0, {0: []}))])
def m_map_insert(M, w, a):
    m = M.load(w, a[0])
    M.store(w, a[0], MapV(z3.Store(m.present, a[1], True), z3.Store(m.val, a[1], a[2])))
    w.aux.setdefault('inserted', []).append(a[1])
    return EnumV(0, {0: []})
def m_replace(M, w, a):
    old = M.load(w, a[0]); M.store(w, a[0], a[1]); return old
def m_filter(M, w, a):
    (idv,) = a[1]
    return z3.Select(w.aux['keep'], idv)

MODELS = [
    (r'<PhantomData<.*> as Default>::default', lambda M, w, a: None),
    (r'Vec::<.*>::new', m_vec_new), (r'Vec::<.*>::len', m_vec_len), (r'Vec::<.*>::push', m_vec_push),
    (r'<Vec<.*> as DerefMut>::deref_mut', m_ident), (r'<Vec<.*> as IndexMut<usize>>::index_mut', m_index_mut),
    (r'core::slice::<impl \[.*\]>::iter_mut', m_iter_mut), (r"<std::slice::IterMut<'_, .*> as IntoIterator>::into_iter", m_ident),
    (r"<std::slice::IterMut<'_, .*> as Iterator>::next", m_iter_next),
    (r'<std::ops::Range<u32> as IntoIterator>::into_iter', m_ident), (r'<std::ops::Range<u32> as Iterator>::next', m_range_next),
    (r'BTreeMap::<u32, u32>::new', m_map_new), (r'BTreeMap::<u32, u32>::get::<u32>', m_map_get), (r'BTreeMap::<u32, u32>::insert', m_map_insert),
    (r'std::mem::replace::<.*>', m_replace), (r'<F as FnMut<\(u32,\)>>::call_mut', m_filter),
]
