import sys, time, re, z3
sys.path.insert(0, '/tmp/mirsym')
from ms3 import *
import ms3

fns = parse_mir(sys.argv[1]); structs, variants = scan_decls('/repo/src')
LMAX = int(sys.argv[2]); ENTRY = sys.argv[3] if len(sys.argv) > 3 else 'PortableRegistry'

def ok(v): return EnumV(0, {0: [v]})
def err(): return EnumV(1, {1: [Tok('err')]})
def inp(w): return w.aux['in']

def m_read_byte(M, w, a):
    i = inp(w)
    if i['pos'] < len(i['bytes']): b = i['bytes'][i['pos']]; i['pos'] += 1; return ok(b)
    return err()
def m_u32(M, w, a):
    i = inp(w)
    if i['pos'] + 4 <= len(i['bytes']):
        b = i['bytes'][i['pos']:i['pos'] + 4]; i['pos'] += 4; return ok(z3.Concat(b[3], b[2], b[1], b[0]))
    return err()
def m_compact(M, w, a):
    i = inp(w); p = i['pos']; bs = i['bytes']; rem = len(bs) - p
    if rem < 1: return err()
    b0 = bs[p]; mode = b0 & 3
    alts = Fork()
    def adv(n, v):
        def th(w2): inp(w2)['pos'] = p + n; return ok([v])
        return th
    alts.append((mode == 0, adv(1, z3.ZeroExt(24, z3.LShR(b0, 2)))))
    if rem >= 2:
        v = z3.LShR(z3.Concat(bs[p + 1], b0), 2)
        alts.append((z3.And(mode == 1, z3.UGT(v, 63)), adv(2, z3.ZeroExt(16, v))))
        alts.append((z3.And(mode == 1, z3.ULE(v, 63)), lambda w2: err()))
    else: alts.append((mode == 1, lambda w2: err()))
    if rem >= 4:
        v = z3.LShR(z3.Concat(bs[p + 3], bs[p + 2], bs[p + 1], b0), 2)
        alts.append((z3.And(mode == 2, z3.UGT(v, 16383)), adv(4, v)))
        alts.append((z3.And(mode == 2, z3.ULE(v, 16383)), lambda w2: err()))
    else: alts.append((mode == 2, lambda w2: err()))
    if rem >= 5:
        v = z3.Concat(bs[p + 4], bs[p + 3], bs[p + 2], bs[p + 1])
        alts.append((z3.And(b0 == 3, z3.UGT(v, 2**30 - 1)), adv(5, v)))
        alts.append((z3.And(mode == 3, z3.Or(b0 != 3, z3.ULE(v, 2**30 - 1))), lambda w2: err()))
    else: alts.append((mode == 3, lambda w2: err()))
    return alts

class SeqFrame(ModelFrame):
    """Vec<X> / String decode: compact length, then k elements (k concretised by forking)"""
    def __init__(self, elem): ModelFrame.__init__(self, None, None); self.elem, self.state, self.k, self.acc = elem, 'len', None, []
    def start(self, M, w): return M.invoke(w, '<Compact<u32> as Decode>::decode', [None])
    def finish(self, M, w, val):
        w.stack.pop(); return M.deliver(w, self.dest, self.retbb, val)
    def resume(self, M, w, val):
        if self.state == 'len':
            if val.discr == 1: return self.finish(M, w, err())
            v = val.payloads[0][0][0]; rem = len(inp(w)['bytes']) - inp(w)['pos']
            alts = []
            for k in range(rem + 1):
                def mk(k):
                    def cont(w2):
                        me = w2.stack[-1]; me.k, me.state = k, 'elems'
                        r = me.next(M, w2)
                        if r is not None: w2.aux['pending'] = r
                    return cont
                alts.append((v == k, mk(k)))
            def toolong(w2):
                me = w2.stack[-1]; r = me.finish(M, w2, err())
                if r is not None: w2.aux['pending'] = r
            alts.append((z3.UGT(v, rem), toolong))
            return ('fork', alts)
        # element returned
        if val.discr == 1: return self.finish(M, w, err())
        self.acc.append(val.payloads[0][0]); return self.next(M, w)
    def next(self, M, w):
        if len(self.acc) == self.k:
            if self.elem == 'u8str':
                return self.finish(M, w, ok(Tok('str%d' % self.k)))
            return self.finish(M, w, ok(VecV(bv(self.k, 64), list(self.acc))))
        if self.elem == 'u8str':
            i = inp(w); b = i['bytes'][i['pos']]; i['pos'] += 1
            me = self
            def asc(w2):
                m2 = w2.stack[-1]; m2.acc.append(b); r = m2.next(M, w2)
                if r is not None: w2.aux['pending'] = r
            def bad(w2):
                m2 = w2.stack[-1]; r = m2.finish(M, w2, err())
                if r is not None: w2.aux['pending'] = r
            return ('fork', [(z3.ULT(b, 128), asc), (z3.UGE(b, 128), bad)])
        return M.invoke(w, '<%s as Decode>::decode' % self.elem, [None])

class OptFrame(ModelFrame):
    def __init__(self, elem): ModelFrame.__init__(self, None, None); self.elem = elem
    def finish(self, M, w, val): w.stack.pop(); return M.deliver(w, self.dest, self.retbb, val)
    def start(self, M, w):
        i = inp(w)
        if i['pos'] >= len(i['bytes']): return self.finish(M, w, err())
        b = i['bytes'][i['pos']]; i['pos'] += 1
        def none(w2):
            r = w2.stack[-1].finish(M, w2, ok(EnumV(0, {0: []})))
            if r is not None: w2.aux['pending'] = r
        def some(w2):
            r = M.invoke(w2, '<%s as Decode>::decode' % w2.stack[-1].elem, [None])
            if r is not None: w2.aux['pending'] = r
        def bad(w2):
            r = w2.stack[-1].finish(M, w2, err())
            if r is not None: w2.aux['pending'] = r
        return ('fork', [(b == 0, none), (b == 1, some), (z3.UGT(b, 1), bad)])
    def resume(self, M, w, val):
        if val.discr == 1: return self.finish(M, w, err())
        return self.finish(M, w, ok(EnumV(1, {1: [val.payloads[0][0]]})))

def m_vec_decode(M, w, a, callee):
    inner = re.fullmatch(r'<Vec<(.+)> as Decode>::decode', callee).group(1)
    return SeqFrame(inner)
m_vec_decode.wants_callee = True
def m_opt_decode(M, w, a, callee):
    inner = re.fullmatch(r'<(?:std::option::)?Option<(.+)> as Decode>::decode', callee).group(1)
    return OptFrame(inner)
m_opt_decode.wants_callee = True
def m_branch(M, w, a):
    r = a[0]
    return EnumV(0, {0: [r.payloads[0][0]]}) if r.discr == 0 else EnumV(1, {1: [EnumV(1, {1: [Tok('err')]})]})
def m_map_err(M, w, a): return a[0] if a[0].discr == 0 else err()

MODELS3 = [
    (r'<__Codec\w+ as Input>::read_byte', m_read_byte), (r'<u8 as Decode>::decode', m_read_byte), (r'<u32 as Decode>::decode', m_u32),
    (r'<Compact<u32> as Decode>::decode', m_compact), (r'<Compact<u32> as Into<u32>>::into', lambda M, w, a: a[0][0]),
    (r'<Vec<.+> as Decode>::decode', m_vec_decode), (r'<String as Decode>::decode', lambda M, w, a: SeqFrame('u8str')),
    (r'<(?:std::option::)?Option<.+> as Decode>::decode', m_opt_decode),
    (r'parity_scale_codec::Error::chain::<&str>', lambda M, w, a: Tok('err')),
    (r'Result::<.*>::map_err::<.*>', m_map_err), (r'<Result<.*> as Try>::branch', m_branch),
    (r'<Result<.*> as FromResidual<.*>>::from_residual', lambda M, w, a: err()),
    (r'<.* as Into<parity_scale_codec::Error>>::into', lambda M, w, a: Tok('err')), (r'<parity_scale_codec::Error as From<.*>>::from', lambda M, w, a: Tok('err')),
    (r'<PhantomData<.*> as Decode>::decode', lambda M, w, a: ok(None)), (r'<PhantomData<.*> as Default>::default', lambda M, w, a: None),
]
tot = 0; t00 = time.time()
for L in range(LMAX + 1):
    M = Machine(fns, structs, variants, MODELS3)
    M.vindex.update({'Continue': 0, 'Break': 1})
    w = World(); w.aux['in'] = {'bytes': [z3.BitVec('b%d' % i, 8) for i in range(L)], 'pos': 0}
    class Root(ModelFrame):
        def start(self, M, w): return M.invoke(w, '<%s as Decode>::decode' % ENTRY, [None])
        def resume(self, M, w, val): w.stack.pop(); return ('done', val)
    root = Root(None, None); w.stack.append(root)
    res = {'ok': 0, 'err': 0, 'ok_full': 0}
    def on_return(w, rv):
        if rv.discr == 0:
            res['ok'] += 1
            if inp(w)['pos'] == L: res['ok_full'] += 1
        else: res['err'] += 1
    def on_panic(w, msg): res.setdefault('panic', []).append(msg)
    t0 = time.time()
    try:
        w.aux['pending_action'] = None
        r = root.start(M, w)
        if r is not None: w.aux['pending_action'] = r
        M.run(w, on_return, on_panic)
    except Inconclusive as e:
        print('INCONCLUSIVE', e); break
    print('L=%d' % L, res, dict(M.stats), 'wall %.1f' % (time.time() - t0), flush=True)
print('total wall %.1f' % (time.time() - t00)); print(sorted(M.callees)[:40])
