import sys, re, time, copy
import z3
import mirsym as M
from mirsym import *

T = z3.BitVecSort(8)        # instantiation of the generic T for this probe (only == is used by the map model)
U = z3.BitVecSort(64)

class MapV:
    def __init__(self, present, val): self.present, self.val = present, val
    def __deepcopy__(self, memo): return MapV(self.present, self.val)
class VecV:
    def __init__(self, ln, data): self.len, self.data = ln, data
    def __deepcopy__(self, memo): return VecV(self.len, self.data)

def m_vec_len(ex, args, k): return k(args[0].get().len)
def m_vec_push(ex, args, k):
    r = args[0]; v = r.get()
    r.set(VecV(v.len + 1, z3.Store(v.data, v.len, args[1])))
    return k(None)
def m_clone(ex, args, k): return k(args[0].get())
def m_entry(ex, args, k):
    mref, key = args
    m = mref.get()
    return ex.branch([(z3.Select(m.present, key), Enum(1, [[mref, key]])),
                      (z3.Not(z3.Select(m.present, key)), Enum(0, [[mref, key]]))], k)
def m_vacant_insert(ex, args, k):
    (mref, key), v = args[0], args[1]
    m = mref.get()
    mref.set(MapV(z3.Store(m.present, key, True), z3.Store(m.val, key, v)))
    return k(Ref(Cell(v)))
def m_occ_get(ex, args, k):
    mref, key = args[0].get()
    return k(Ref(Cell(z3.Select(mref.get().val, key))))

M.STD.update({
    'Vec::<T>::len': m_vec_len, 'Vec::<T>::push': m_vec_push, '<T as Clone>::clone': m_clone,
    'BTreeMap::<T, usize>::entry': m_entry,
    "std::collections::btree_map::VacantEntry::<'_, T, usize>::insert": m_vacant_insert,
    "std::collections::btree_map::OccupiedEntry::<'_, T, usize>::get": m_occ_get,
})

# --- small extensions to the prototype executor: aggregates, casts, drop
_old_rvalue = Exec.rvalue
def rvalue(self, frame, s):
    s = s.strip()
    m = re.fullmatch(r'(.+) as (u8|u16|u32|u64|usize) \(IntToInt\)', s)
    if m:
        v = self.operand(frame, m.group(1)); w = BITS[m.group(2)]
        return z3.Extract(w - 1, 0, v) if v.size() > w else (z3.ZeroExt(w - v.size(), v) if v.size() < w else v)
    m = re.fullmatch(r"Symbol::<'_, T> \{ id: (.+), marker: .* \}", s)
    if m: return [self.operand(frame, m.group(1)), None]
    if s.startswith('(') and s.endswith(')') and not re.match(r'\(\*|\(_\d+ as|\(\(', s) and ', ' in s and not re.search(r': [A-Za-z&]', s):
        return [self.operand(frame, a) for a in M._split_args(s[1:-1])]
    return _old_rvalue(self, frame, s)
Exec.rvalue = rvalue
_old_step = Exec.step_block
def step_block(self, frame, bb, k):
    fn, loc = frame
    t = fn.blocks[bb][-1].rstrip(';')
    m = re.fullmatch(r'drop\((.+)\) -> \[return: (bb\d+), unwind.*\]', t)
    if m and len(fn.blocks[bb]) == 1: return self.step_block(frame, m.group(2), k)
    return _old_step(self, frame, bb, k)
Exec.step_block = step_block
_old_const = Exec.const
def const(self, s):
    if s.strip().startswith('ZeroSized'): return None
    return _old_const(self, s)
Exec.const = const

fns = parse_mir(sys.argv[1])
name = next(n for n in fns if n.endswith('::intern_or_get'))
fn = fns[name]
N = 3   # universe bound for the pre-state: len <= N  (bounded inductive step)
ex = Exec(fns)
present = z3.Array('present', T, z3.BoolSort()); val = z3.Array('val', T, U)
ln = z3.BitVec('len', 64); data = z3.Array('data', U, T)
kq = z3.BitVec('kq', 8); iq = z3.BitVec('iq', 64)
def INV(present, val, ln, data):
    return z3.And(
        z3.ForAll([kq], z3.Implies(z3.Select(present, kq), z3.And(z3.ULT(z3.Select(val, kq), ln), z3.Select(data, z3.Select(val, kq)) == kq))),
        z3.ForAll([iq], z3.Implies(z3.ULT(iq, ln), z3.And(z3.Select(present, z3.Select(data, iq)), z3.Select(val, z3.Select(data, iq)) == iq))))
ex.solver.add(z3.ULE(ln, N), INV(present, val, ln, data))
s = z3.BitVec('s', 8)
interner = Cell([MapV(present, val), VecV(ln, data)])
t0 = time.time(); res = []
def leaf(rv):
    inserted, sym = rv
    m, v = interner.v
    # spec (duplicate-free list model): if s present before -> (false, old index) and state unchanged; else (true, len) and appended
    was = z3.Select(present, s)
    post_ok = z3.And(
        inserted == z3.Not(was),
        z3.If(was, z3.And(z3.ZeroExt(32, sym[0]) == z3.Select(val, s), v.len == ln),
                   z3.And(z3.ZeroExt(32, sym[0]) == ln, v.len == ln + 1, z3.Select(v.data, ln) == s)),
        INV(m.present, m.val, v.len, v.data),
        z3.ForAll([iq], z3.Implies(z3.ULT(iq, ln), z3.Select(v.data, iq) == z3.Select(data, iq))))   # append-only
    ex.solver.push(); ex.solver.add(z3.Not(post_ok)); r = ex.solver.check(); ex.solver.pop()
    res.append(str(r))
ex.run(fn, [Ref(interner), s], leaf)
print('intern_or_get inductive step: paths', len(res), 'verdicts', res, 'wall', round(time.time() - t0, 2), 'callees', sorted(ex.callees))
