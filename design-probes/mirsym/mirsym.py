#!/usr/bin/env python3
"""Prototype: path-based symbolic executor for a small MIR subset (probe only)."""
import re, sys, copy, time
import z3

# ---------------------------------------------------------------- MIR parsing
class Fn:
    def __init__(self, name, sig):
        self.name, self.sig = name, sig
        self.blocks = {}   # bb -> (stmts, term)
        self.nargs = 0

def parse_mir(path):
    fns = {}
    cur = None; bb = None
    for line in open(path):
        line = line.rstrip('\n')
        m = re.match(r'^fn (.+?)\((.*)\) -> (.+) \{$', line)
        if m and not line.startswith(' '):
            name = m.group(1)
            cur = Fn(name, line)
            args = m.group(2)
            cur.nargs = len(re.findall(r'_\d+: ', args))
            if name not in fns:      # keep first (runtime MIR precedes "MIR FOR CTFE")
                fns[name] = cur
            bb = None
            continue
        if cur is None: continue
        if line == '}':
            cur = None; continue
        m = re.match(r'^    (bb\d+)( \(cleanup\))?: \{$', line)
        if m:
            bb = m.group(1); cur.blocks[bb] = []
            continue
        if bb and line.startswith('        '):
            cur.blocks[bb].append(line.strip())
        if line == '    }': bb = None
    return fns

# ---------------------------------------------------------------- values
class Cell:
    def __init__(self, v=None): self.v = v
class Ref:
    """reference to a cell + projection path (list of ints)"""
    def __init__(self, cell, path=()): self.cell, self.path = cell, tuple(path)
    def get(self):
        v = self.cell.v
        for p in self.path: v = v[p]
        return v
    def set(self, x):
        if not self.path: self.cell.v = x; return
        v = self.cell.v
        for p in self.path[:-1]: v = v[p]
        v[self.path[-1]] = x
class Str:
    """slice of bytes: concrete window into a python list of z3 bytes"""
    def __init__(self, b, s, e): self.b, self.s, self.e = b, s, e
    def bytes(self): return self.b[self.s:self.e]
class Enum:
    def __init__(self, discr, payload): self.discr, self.payload = discr, payload   # concrete discr
class Closure:
    def __init__(self, fn): self.fn = fn
class SliceIter:
    def __init__(self, s): self.s = s

class Inconclusive(Exception): pass
class PathDead(Exception): pass

# ---------------------------------------------------------------- executor
class Exec:
    def __init__(self, fns):
        self.fns = fns
        self.solver = z3.Solver()
        self.paths = 0; self.queries = 0; self.solver_time = 0.0
        self.callees = set()

    def feasible(self, cond):
        self.queries += 1
        t = time.time()
        self.solver.push(); self.solver.add(cond)
        r = self.solver.check()
        self.solver.pop()
        self.solver_time += time.time() - t
        if r == z3.unknown: raise Inconclusive('solver unknown')
        return r == z3.sat

    # fork: generator of (cond) alternatives; each alternative explored under push/pop
    def branch(self, alts, k):
        """alts: list of (z3 cond, payload); k(payload) continues the path."""
        for cond, payload in alts:
            c = z3.simplify(cond) if not isinstance(cond, bool) else z3.BoolVal(cond)
            if z3.is_false(c): continue
            if not z3.is_true(c) and not self.feasible(c): continue
            self.solver.push(); self.solver.add(c)
            try: k(payload)
            finally: self.solver.pop()

    def call(self, name, args, k):
        """k(retval) is the continuation (CPS so that models can fork)."""
        self.callees.add(name)
        model = STD.get(name)
        if model: return model(self, args, k)
        fn = self.resolve(name)
        if fn is None: raise Inconclusive('unmodelled callee: ' + name)
        return self.run(fn, args, k)

    def resolve(self, name):
        if name in self.fns: return self.fns[name]
        return None

    def run(self, fn, args, k):
        loc = {0: Cell()}
        for i, a in enumerate(args): loc[i + 1] = Cell(a)
        frame = (fn, loc)
        self.step_block(frame, 'bb0', k)

    # ---- places
    def place(self, frame, s):
        """returns Ref for place expression string"""
        s = s.strip()
        fn, loc = frame
        m = re.fullmatch(r'_(\d+)', s)
        if m:
            n = int(m.group(1)); loc.setdefault(n, Cell()); return Ref(loc[n])
        if s.startswith('(*') and s.endswith(')'):
            inner = self.place(frame, s[2:-1]).get()
            assert isinstance(inner, Ref), ('deref of non-ref', s, inner)
            return inner
        m = re.fullmatch(r'\((.+) as (\w+)\)', s)
        if m:
            r = self.place(frame, m.group(1))
            return Ref(r.cell, r.path + ('payload',)) if False else _EnumPayloadRef(r)
        m = re.fullmatch(r'\((.+)\.(\d+): (.+)\)', s)
        if m:
            base = self.place(frame, _balanced_prefix(s))
            idx = int(_field_index(s))
            return _FieldRef(base, idx)
        raise Inconclusive('place: ' + s)

    def operand(self, frame, s):
        s = s.strip()
        if s.startswith('copy ') or s.startswith('move '):
            return self.place(frame, s[5:]).get()
        if s.startswith('no_retag '): return self.operand(frame, s[9:])
        if s.startswith('const '): return self.const(s[6:])
        raise Inconclusive('operand: ' + s)

    def const(self, s):
        s = s.strip()
        if s == 'true': return z3.BoolVal(True)
        if s == 'false': return z3.BoolVal(False)
        m = re.fullmatch(r'(-?\d+)_(u8|u16|u32|u64|usize|i8|i16|i32|i64|isize)', s)
        if m: return z3.BitVecVal(int(m.group(1)), BITS[m.group(2)])
        m = re.fullmatch(r'"(.*)"', s)
        if m:
            bs = [z3.BitVecVal(b, 8) for b in m.group(1).encode()]
            return Str(bs, 0, len(bs))
        m = re.fullmatch(r'ZeroSized: \{closure@(.+)\}', s)
        if m: return Closure(m.group(1))
        raise Inconclusive('const: ' + s)

    def rvalue(self, frame, s):
        s = s.strip()
        m = re.fullmatch(r'(Eq|Ne|Lt|Le|Gt|Ge|BitAnd|BitOr)\((.+), (.+)\)', s)
        if m:
            a, b = self.operand(frame, m.group(2)), self.operand(frame, m.group(3))
            op = m.group(1)
            return {'Eq': lambda: a == b, 'Ne': lambda: a != b, 'Lt': lambda: z3.ULT(a, b), 'Le': lambda: z3.ULE(a, b),
                    'Gt': lambda: z3.UGT(a, b), 'Ge': lambda: z3.UGE(a, b), 'BitAnd': lambda: a & b, 'BitOr': lambda: a | b}[op]()
        if s.startswith('&mut '): return self.place(frame, s[5:])
        if s.startswith('&'): return self.place(frame, s[1:])
        m = re.fullmatch(r'discriminant\((.+)\)', s)
        if m:
            e = self.place(frame, m.group(1)).get()
            return z3.BitVecVal(e.discr, 64)
        return self.operand(frame, s)

    def step_block(self, frame, bb, k):
        fn, loc = frame
        lines = fn.blocks[bb]
        for ln in lines[:-1]:
            ln = ln.rstrip(';')
            if ln.startswith('StorageLive') or ln.startswith('StorageDead') or ln.startswith('nop') or ln.startswith('FakeRead') or ln.startswith('PlaceMention'): continue
            lhs, rhs = ln.split(' = ', 1)
            self.place(frame, lhs).set(self.rvalue(frame, rhs))
        t = lines[-1].rstrip(';')
        if t == 'return':
            self.paths_done = getattr(self, 'paths_done', 0)
            return k(loc[0].v)
        if t == 'unreachable': raise Inconclusive('reached unreachable in ' + fn.name)
        m = re.fullmatch(r'goto -> (bb\d+)', t)
        if m: return self.step_block(frame, m.group(1), k)
        m = re.fullmatch(r'switchInt\((.+)\) -> \[(.+)\]', t)
        if m:
            v = self.operand(frame, m.group(1))
            alts = []; seen = []
            for part in m.group(2).split(', '):
                key, tgt = part.split(': ')
                if key == 'otherwise':
                    cond = z3.And([_neq(v, c) for c in seen]) if seen else z3.BoolVal(True)
                else:
                    c = int(key); seen.append(c); cond = _eq(v, c)
                alts.append((cond, tgt))
            # each alternative must run on its own copy of the frame
            live = [a for a in alts if not z3.is_false(z3.simplify(a[0]))]
            def cont(tgt, frame=frame):
                fr = (frame[0], copy.deepcopy(frame[1])) if len(live) > 1 else frame
                self.step_block(fr, tgt, k)
            return self.branch(alts, cont)
        m = re.fullmatch(r'(.+?) = (.+)\((.*)\) -> \[return: (bb\d+), unwind.*\]', t)
        if m:
            dest, callee, argstr, ret = m.groups()
            args = [self.operand(frame, a) for a in _split_args(argstr)] if argstr.strip() else []
            def after(rv, frame=frame):
                self.place(frame, dest).set(rv)
                self.step_block(frame, ret, k)
            return self.call(callee, args, after)
        raise Inconclusive('terminator: ' + t)

BITS = {'u8': 8, 'u16': 16, 'u32': 32, 'u64': 64, 'usize': 64, 'i8': 8, 'i16': 16, 'i32': 32, 'i64': 64, 'isize': 64}

def _eq(v, c):
    if z3.is_bool(v): return v if c else z3.Not(v)
    return v == z3.BitVecVal(c, v.size())
def _neq(v, c): return z3.Not(_eq(v, c))

def _split_args(s):
    out, depth, cur = [], 0, ''
    for ch in s:
        if ch in '([{<': depth += 1
        if ch in ')]}>': depth -= 1
        if ch == ',' and depth == 0: out.append(cur); cur = ''
        else: cur += ch
    if cur.strip(): out.append(cur)
    return out

def _balanced_prefix(s):
    # s = "(BASE.N: TYPE)" -> BASE
    inner = s[1:-1]
    depth = 0
    for i, ch in enumerate(inner):
        if ch == '(': depth += 1
        elif ch == ')': depth -= 1
        elif ch == '.' and depth == 0 and re.match(r'\.\d+: ', inner[i:]):
            return inner[:i]
    raise Inconclusive('field place: ' + s)
def _field_index(s):
    base = _balanced_prefix(s)
    rest = s[1 + len(base):]
    return re.match(r'\.(\d+): ', rest).group(1)

class _FieldRef(Ref):
    def __init__(self, base, idx): self.base, self.idx = base, idx
    def get(self): return self.base.get()[self.idx]
    def set(self, x): self.base.get()[self.idx] = x
class _EnumPayloadRef(Ref):
    def __init__(self, base): self.base = base
    def get(self): return self.base.get().payload
    def set(self, x): self.base.get().payload = x

# ---------------------------------------------------------------- std models (trusted)
def _is_ascii(ex, args, k):
    s = args[0]
    return k(z3.And([z3.ULT(b, 128) for b in s.bytes()]) if s.bytes() else z3.BoolVal(True))

def _trim_start_matches_str(ex, args, k):
    s, pat = args
    p = pat.bytes(); n = len(p)
    assert n > 0
    bs = s.bytes()
    alts = []
    # strip exactly j copies of pat: first j copies match, (j+1)-th does not
    j = 0
    while True:
        pre = [bs[i * n + t] == p[t] for i in range(j) for t in range(n)] if j else []
        if (j + 1) * n <= len(bs):
            nxt = z3.Not(z3.And([bs[j * n + t] == p[t] for t in range(n)]))
            alts.append((z3.And(pre + [nxt]), Str(s.b, s.s + j * n, s.e)))
            j += 1
        else:
            alts.append((z3.And(pre) if pre else z3.BoolVal(True), Str(s.b, s.s + j * n, s.e)))
            break
    return ex.branch(alts, k)

def _as_bytes(ex, args, k): return k(args[0])
def _split_first(ex, args, k):
    s = args[0]
    if s.e - s.s == 0: return k(Enum(0, None))
    head = Ref(Cell(s.b[s.s]))
    return k(Enum(1, [[head, Str(s.b, s.s + 1, s.e)]]))
def _u8_pred(lo, hi):
    def f(ex, args, k):
        c = args[0].get()
        return k(z3.And(z3.UGE(c, lo), z3.ULE(c, hi)))
    return f
def _slice_iter(ex, args, k): return k(SliceIter(args[0]))
def _iter_all(ex, args, k):
    it = args[0].get(); clo = args[1]
    s = it.s
    fn = next(f for n, f in ex.fns.items() if n.endswith('{closure#0}') and clo.fn.split(':')[0] in open(MIRPATH).read()[:0] + n or True and n.endswith('::{closure#0}') and 'is_rust_identifier' in n)
    elems = s.bytes()
    def go(i, acc):
        if i == len(elems): return k(z3.And(acc) if acc else z3.BoolVal(True))
        ex.run(fn, [Ref(Cell(clo)), Ref(Cell(elems[i]))], lambda rv: go(i + 1, acc + [rv]))
    return go(0, [])

STD = {
    'core::str::<impl str>::is_ascii': _is_ascii,
    'core::str::<impl str>::trim_start_matches::<&str>': _trim_start_matches_str,
    'core::str::<impl str>::as_bytes': _as_bytes,
    'core::slice::<impl [u8]>::split_first': _split_first,
    'core::num::<impl u8>::is_ascii_lowercase': _u8_pred(97, 122),
    'core::num::<impl u8>::is_ascii_uppercase': _u8_pred(65, 90),
    'core::num::<impl u8>::is_ascii_digit': _u8_pred(48, 57),
    'core::slice::<impl [u8]>::iter': _slice_iter,
}

MIRPATH = None

def main():
    global MIRPATH
    MIRPATH = sys.argv[1]; maxlen = int(sys.argv[2])
    fns = parse_mir(MIRPATH)
    STD["<std::slice::Iter<'_, u8> as Iterator>::all::<{closure@src/utils.rs:27:39: 27:44}>"] = _iter_all
    # generic: any Iterator::all over slice iter
    for n in list(fns):
        pass
    target = fns['is_rust_identifier']
    t0 = time.time()
    total_paths = 0
    for L in range(maxlen + 1):
        ex = Exec(fns)
        bs = [z3.BitVec(f'b{i}', 8) for i in range(L)]
        s = Str(bs, 0, L)
        # reference language: (r#)?[A-Za-z_][A-Za-z0-9_]*
        def alpha(c): return z3.Or(c == 95, z3.And(z3.UGE(c, 97), z3.ULE(c, 122)), z3.And(z3.UGE(c, 65), z3.ULE(c, 90)))
        def alnum(c): return z3.Or(alpha(c), z3.And(z3.UGE(c, 48), z3.ULE(c, 57)))
        def plain(xs): return z3.And([alpha(xs[0])] + [alnum(c) for c in xs[1:]]) if xs else z3.BoolVal(False)
        spec = plain(bs)
        if L >= 2: spec = z3.Or(spec, z3.And(bs[0] == 114, bs[1] == 35, plain(bs[2:])))
        found = []
        def leaf(rv):
            nonlocal total_paths
            total_paths += 1
            ex.solver.push(); ex.solver.add(rv != spec)
            if ex.solver.check() == z3.sat:
                m = ex.solver.model()
                found.append(bytes(m.eval(b, model_completion=True).as_long() for b in bs))
            ex.solver.pop()
        ex.run(target, [s], leaf)
        print(f'len={L} paths={total_paths} queries={ex.queries} cex={found[:3]}')
    print('wall', round(time.time() - t0, 2))

if __name__ == '__main__':
    main()
