import sys, time, z3
from ms2 import *
import ms2

fns = parse_mir(sys.argv[1]); structs, variants = scan_decls('/repo/src')
print('Registry', structs.get('Registry'), 'Interner', structs.get('Interner'), 'MetaType', structs.get('MetaType'), 'UntrackedSymbol', structs.get('UntrackedSymbol'))
TID = z3.BitVecSort(128); U64 = z3.BitVecSort(64); U32 = z3.BitVecSort(32); Def = z3.DeclareSort('Def')
maxref = z3.Function('maxref', Def, U64)

class VecA:
    def __init__(self, ln, data): self.len, self.data = ln, data

def state(tag):
    return dict(mp=z3.Array('mp_' + tag, TID, z3.BoolSort()), mv=z3.Array('mv_' + tag, TID, U64), n=z3.BitVec('n_' + tag, 64),
                data=z3.Array('data_' + tag, U64, TID), D=z3.Array('D_' + tag, U32, z3.BoolSort()), tys=z3.Array('tys_' + tag, U32, Def))
kq = z3.BitVec('kq', 128); iq = z3.BitVec('iq', 64); dq = z3.BitVec('dq', 32)
def INV_I(s):
    return z3.And(z3.ULT(s['n'], 2**32),
        z3.ForAll([kq], z3.Implies(z3.Select(s['mp'], kq), z3.And(z3.ULT(z3.Select(s['mv'], kq), s['n']), z3.Select(s['data'], z3.Select(s['mv'], kq)) == kq))),
        z3.ForAll([iq], z3.Implies(z3.ULT(iq, s['n']), z3.And(z3.Select(s['mp'], z3.Select(s['data'], iq)), z3.Select(s['mv'], z3.Select(s['data'], iq)) == iq))))
def INV(s): return z3.And(INV_I(s), z3.ForAll([dq], z3.Implies(z3.Select(s['D'], dq), z3.ULT(z3.ZeroExt(32, dq), s['n']))))
def R(a, b):
    k64 = z3.ZeroExt(32, dq)
    return z3.And(z3.ULE(a['n'], b['n']), INV(b),
        z3.ForAll([iq], z3.Implies(z3.ULT(iq, a['n']), z3.Select(b['data'], iq) == z3.Select(a['data'], iq))),
        z3.ForAll([dq], z3.Implies(z3.Select(a['D'], dq), z3.And(z3.Select(b['D'], dq), z3.Select(b['tys'], dq) == z3.Select(a['tys'], dq)))),
        z3.ForAll([dq], z3.Implies(z3.And(z3.Select(b['D'], dq), z3.Not(z3.Select(a['D'], dq))), z3.And(z3.ULE(a['n'], k64), z3.ULT(k64, b['n']), z3.ULE(maxref(z3.Select(b['tys'], dq)), b['n'])))),
        z3.ForAll([dq], z3.Implies(z3.And(z3.ULE(a['n'], k64), z3.ULT(k64, b['n'])), z3.Select(b['D'], dq))))

def to_heap(s):
    return [[MapV(s['mp'], s['mv']), VecA(s['n'], s['data'])], MapV(s['D'], s['tys'])]
def from_heap(v):
    return dict(mp=v[0][0].present, mv=v[0][0].val, n=v[0][1].len, data=v[0][1].data, D=v[1].present, tys=v[1].val)

s0 = state('0'); s2 = state('2'); P = z3.Const('P', Def)
log = []
def m_vec_len(M, w, a): return M.load(w, a[0]).len
def m_vec_push(M, w, a):
    v = M.load(w, a[0]); M.store(w, a[0], VecA(v.len + 1, z3.Store(v.data, v.len, a[1]))); return None
def m_entry(M, w, a):
    m = M.load(w, a[0]); key = a[1]
    return Fork([(z3.Select(m.present, key), lambda w2: EnumV(1, {1: [[a[0], key]]})), (z3.Not(z3.Select(m.present, key)), lambda w2: EnumV(0, {0: [[a[0], key]]}))])
def m_vacant_insert(M, w, a):
    mref, key = a[0]; m = M.load(w, mref)
    M.store(w, mref, MapV(z3.Store(m.present, key, True), z3.Store(m.val, key, a[1]))); return Ref(w.alloc(a[1]))
def m_occ_get(M, w, a):
    mref, key = M.load(w, a[0]); return Ref(w.alloc(z3.Select(M.load(w, mref).val, key)))
def m_type_info(M, w, a):
    w.aux.setdefault('log', []).append('type_info'); return Tok('TYPE')
def m_into_portable(M, w, a):
    # havoc the registry under the rely condition
    w.aux.setdefault('log', []).append('into_portable')
    reg = a[1]; s1 = from_heap(M.load(w, reg)); w.aux['s1'] = s1
    M.store(w, reg, to_heap(s2)); w.pc.append(R(s1, s2)); w.pc.append(z3.ULE(maxref(P), s2['n']))
    return P
def m_types_insert(M, w, a):
    m = M.load(w, a[0]); key = a[1][0]
    w.aux['overwrote'] = z3.Select(m.present, key)
    M.store(w, a[0], MapV(z3.Store(m.present, key, True), z3.Store(m.val, key, a[2]))); return EnumV(0, {0: []})
MODELS2 = [
    (r'Vec::<.*>::len', m_vec_len), (r'Vec::<.*>::push', m_vec_push), (r'<.* as Clone>::clone', lambda M, w, a: M.load(w, a[0])),
    (r'BTreeMap::<T, usize>::entry', m_entry), (r"std::collections::btree_map::VacantEntry::<'_, T, usize>::insert", m_vacant_insert),
    (r"std::collections::btree_map::OccupiedEntry::<'_, T, usize>::get", m_occ_get),
    (r'MetaType::type_info', m_type_info), (r'<ty::Type as IntoPortable>::into_portable', m_into_portable),
    (r'BTreeMap::<UntrackedSymbol<TypeId>, ty::Type<PortableForm>>::insert', m_types_insert),
]
M = Machine(fns, structs, variants, MODELS2)
# generic-method resolution by suffix (prototype heuristic)
_old = M.resolve
def resolve(callee):
    r = _old(callee)
    if r: return r
    meth = callee.split('::')[-1]
    c = [f for n, f in fns.items() if n.endswith('::' + meth) and n.split('::')[0] in ('interner', 'registry', 'meta_type')]
    tyname = re.sub(r'::<.*', '', callee).split('::')[0]
    c = [f for f in c if tyname in f.argstr or tyname in f.ret] or c
    return c[0] if len(c) == 1 else None
M.resolve = resolve

w = World(); reg_addr = w.alloc(to_heap(s0))
tid = z3.BitVec('tid', 128)
mt_addr = w.alloc([Tok('fnptr'), tid])
fn = next(f for n, f in fns.items() if n.endswith('::register_type') and 'Registry' in f.argstr and 'MetaType' in f.argstr)
fr = Frame(fn); fr.loc[1] = w.alloc(Ref(reg_addr)); fr.loc[2] = w.alloc(Ref(mt_addr)); w.stack.append(fr)
w.pc = [INV(s0)]
t0 = time.time(); out = []
def on_return(w, rv):
    s3 = from_heap(w.heap[reg_addr]); rid = rv[0]; log = w.aux.get('log', [])
    known = z3.Select(s0['mp'], tid)
    if not log:   # path without evaluation
        goal = z3.And(known, z3.ZeroExt(32, rid) == z3.Select(s0['mv'], tid), s3['n'] == s0['n'],
                      z3.ForAll([dq], z3.And(z3.Select(s3['D'], dq) == z3.Select(s0['D'], dq), z3.Select(s3['tys'], dq) == z3.Select(s0['tys'], dq))), R(s0, s3))
    else:
        goal = z3.And(z3.Not(known), log == ['type_info', 'into_portable'], z3.ZeroExt(32, rid) == s0['n'], z3.Not(w.aux['overwrote']),
                      z3.Select(s3['D'], rid), z3.Select(s3['tys'], rid) == P, R(s0, s3), z3.ULT(z3.ZeroExt(32, rid), s3['n']))
    M.solver.push(); M.solver.add(*w.pc); M.solver.add(z3.Not(goal)); r = M.solver.check(); M.solver.pop()
    out.append((tuple(log), str(r)))
def on_panic(w, msg): out.append(('PANIC', msg))
try: M.run(w, on_return, on_panic)
except Inconclusive as e: print('INCONCLUSIVE', e)
print('register_type R/G step:', out, 'wall', round(time.time() - t0, 2), dict(M.stats))
# side obligations: transitivity of R, quiescence
a, b, c = state('a'), state('b'), state('c')
S = z3.Solver(); S.add(INV(a), R(a, b), R(b, c), z3.Not(R(a, c))); t = time.time(); print('R transitive:', S.check(), round(time.time() - t, 2))
S = z3.Solver(); S.add(INV(a), z3.Not(R(a, a))); print('R reflexive:', S.check())
S = z3.Solver()
quies = lambda s: z3.ForAll([dq], z3.Select(s['D'], dq) == z3.ULT(z3.ZeroExt(32, dq), s['n']))
S.add(INV(a), quies(a), R(a, b), z3.Not(quies(b))); print('quiescent dense preserved:', S.check())
print('callees', sorted(M.callees))
