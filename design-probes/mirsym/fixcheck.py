import sys, z3
import mirsym as M
from mirsym import *
def _strip_prefix(ex, args, k):
    s, pat = args; p = pat.bytes(); n = len(p); bs = s.bytes()
    if len(bs) < n: return k(Enum(0, None))
    hit = z3.And([bs[t] == p[t] for t in range(n)])
    return ex.branch([(hit, Enum(1, [Str(s.b, s.s + n, s.e)])), (z3.Not(hit), Enum(0, None))], k)
def _unwrap_or(ex, args, k):
    o, d = args
    return k(o.payload[0] if o.discr == 1 else d)
M.STD['core::str::<impl str>::strip_prefix::<&str>'] = _strip_prefix
M.STD['Option::<&str>::unwrap_or'] = _unwrap_or
sys.argv = ['x', sys.argv[1], sys.argv[2]]
M.main()
