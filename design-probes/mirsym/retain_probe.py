import sys, time, copy, z3
from ms2 import *

fns = parse_mir(sys.argv[1]); structs, variants = scan_decls('/repo/src')
N = int(sys.argv[2]); CAP = int(sys.argv[3])
M = Machine(fns, structs, variants, MODELS)
print('struct Type:', structs.get('Type'), ' Field:', structs.get('Field'), ' TypeDef variants:', variants.get('TypeDef'))
cons = []
cnt = [0]
def fresh(name, w):
    cnt[0] += 1; return z3.BitVec('%s_%d' % (name, cnt[0]), w)
def sym_id():
    v = fresh('id', 32); cons.append(z3.ULT(v, N)); return [v, None]
def sym_vec(mk, cap=CAP):
    ln = fresh('len', 64); cons.append(z3.ULE(ln, cap)); return VecV(ln, [mk() for _ in range(cap)])
def tok(s): return Tok(s)
def field(): return [EnumV(0, {0: []}), sym_id(), EnumV(0, {0: []}), VecV(bv(0, 64), [])]
def variant(): return [tok('vn'), sym_vec(field), fresh('vidx', 8), VecV(bv(0, 64), [])]
def tparam():
    d = fresh('popt', 64); cons.append(z3.ULT(d, 2))
    return [tok('pn'), EnumV(d, {0: [], 1: [sym_id()]})]
def typedef():
    d = fresh('kind', 64); cons.append(z3.ULT(d, 8))
    return EnumV(d, {0: [[sym_vec(field)]], 1: [[sym_vec(variant)]], 2: [[sym_id()]], 3: [[fresh('alen', 32), sym_id()]],
                     4: [[sym_vec(sym_id)]], 5: [EnumV(0, {0: []})], 6: [[sym_id()]], 7: [[sym_id(), sym_id()]]})
def ptype(i):
    return [bv(i, 32), [[VecV(bv(0, 64), [])], sym_vec(tparam, 1), typedef(), VecV(bv(0, 64), [])]]
w = World()
reg_addr = w.alloc([VecV(bv(N, 64), [ptype(i) for i in range(N)])])
w.aux['keep'] = z3.Array('keep', z3.BitVecSort(32), z3.BoolSort())
w.pc = list(cons)
fn = next(f for n, f in fns.items() if n.endswith('::retain'))
fr = Frame(fn); fr.loc[1] = w.alloc(Ref(reg_addr)); fr.loc[2] = w.alloc(None)
w.stack.append(fr)
t0 = time.time(); res = {'ok': 0, 'bad': 0, 'panic': 0}; samples = []
def on_return(w, rv):
    reg = w.heap[reg_addr]; v = reg[0]
    k = M.concrete(w, v.len) if z3.is_bv_value(z3.simplify(v.len)) else None
    # oracle (sketch): dense ids
    viol = z3.Or([v.elems[i][0] != i for i in range(k)]) if k else z3.BoolVal(False)
    if M.sat(w, viol): res['bad'] += 1
    else: res['ok'] += 1
def on_panic(w, msg):
    res['panic'] += 1
    if len(samples) < 3: samples.append(msg)
try:
    M.run(w, on_return, on_panic)
except Inconclusive as e:
    print('INCONCLUSIVE', e)
print('N', N, 'CAP', CAP, res, dict(M.stats), 'wall', round(time.time() - t0, 1), 'solver', round(M.solver_time, 1), samples)
print('callees', sorted(M.callees))
