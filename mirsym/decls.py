"""Declaration scanner over /repo/src: struct field order, enum variants (MIR aggregates print field *names*,
places use *indices*), and the Self type / trait of every impl block (MIR names impls by source span)."""
import re, glob, os

STD_ENUMS = {
    'Option': [('None', None), ('Some', ['0'])],
    'Result': [('Ok', ['0']), ('Err', ['0'])],
    'ControlFlow': [('Continue', ['0']), ('Break', ['0'])],
    'Entry': [('Vacant', ['0']), ('Occupied', ['0'])],
    'Cow': [('Borrowed', ['0']), ('Owned', ['0'])],
    'Ordering': [('Less', None), ('Equal', None), ('Greater', None)],
}
STD_STRUCTS = {'RangeTo': ['end'], 'RangeToInclusive': ['end'], 'RangeFull': [], 'RangeFrom': ['start'], 'Range': ['start', 'end'], 'RangeInclusive': ['start', 'end', 'exhausted'], 'Compact': ['0'], 'CompactRef': ['0'],
               'PhantomData': []}


def _strip_comments(txt):
    txt = re.sub(r'//[^\n]*', lambda m: ' ' * len(m.group(0)), txt)
    return txt


def _match_brace(txt, i, open_ch='{', close_ch='}'):
    d = 0
    for j in range(i, len(txt)):
        if txt[j] == open_ch: d += 1
        elif txt[j] == close_ch:
            d -= 1
            if d == 0: return j
    raise ValueError('unbalanced')


def _split_items(body):
    """split a struct/enum body at depth-0 commas"""
    out, d, cur = [], 0, []
    for i, ch in enumerate(body):
        if ch in '([{<': d += 1
        elif ch in ')]}' or (ch == '>' and body[i - 1] not in '-='): d -= 1
        if ch == ',' and d == 0:
            out.append(''.join(cur)); cur = []
        else: cur.append(ch)
    if ''.join(cur).strip(): out.append(''.join(cur))
    return out


def _strip_attrs(item):
    s = item.strip()
    while s.startswith('#'):
        j = s.index('[')
        k = _match_brace(s, j, '[', ']')
        s = s[k + 1:].strip()
    return s


class Decls:
    def __init__(self, srcdir):
        self.srcdir = srcdir
        self.structs, self.enums = dict(STD_STRUCTS), dict(STD_ENUMS)
        self.files = {}
        self.items = {}   # file -> [(line, kind, name)] for derive-span lookup
        for p in sorted(glob.glob(os.path.join(srcdir, '**', '*.rs'), recursive=True)):
            rel = os.path.relpath(p, os.path.dirname(srcdir.rstrip('/')))
            raw = open(p, encoding='utf-8').read()
            self.files[rel] = raw
            self._scan(rel, _strip_comments(raw))
        self._impl_cache = {}

    def _scan(self, rel, txt):
        items = []
        for m in re.finditer(r'(?m)^\s*(?:pub(?:\([a-z]+\))? )?(struct|enum) (\w+)', txt):
            kind, name = m.group(1), m.group(2)
            line = txt.count('\n', 0, m.start(1)) + 1
            items.append((line, kind, name))
            j = m.end()
            # find body start: first '{' or '(' or ';' at angle depth 0
            d = 0
            while j < len(txt):
                ch = txt[j]
                if ch == '<': d += 1
                elif ch == '>' and txt[j - 1] != '-': d -= 1
                elif d == 0 and ch in '{(;': break
                j += 1
            if j >= len(txt) or txt[j] == ';':
                if kind == 'struct': self.structs.setdefault(name, [])
                continue
            if txt[j] == '(':
                k = _match_brace(txt, j, '(', ')')
                n = len([x for x in _split_items(txt[j + 1:k]) if _strip_attrs(x)])
                if kind == 'struct': self.structs[name] = [str(i) for i in range(n)]
                continue
            k = _match_brace(txt, j)
            body = txt[j + 1:k]
            if kind == 'struct':
                fields = []
                for it in _split_items(body):
                    it = _strip_attrs(it)
                    mm = re.match(r'(?:pub(?:\([a-z]+\))? )?(\w+)\s*:', it)
                    if mm: fields.append(mm.group(1))
                self.structs[name] = fields
            else:
                vs = []
                for it in _split_items(body):
                    it = _strip_attrs(it)
                    mm = re.match(r'(\w+)\s*(\(|\{|=|$)', it)
                    if not mm: continue
                    vname = mm.group(1)
                    if mm.group(2) == '(':
                        kk = _match_brace(it, it.index('('), '(', ')')
                        n = len([x for x in _split_items(it[it.index('(') + 1:kk]) if _strip_attrs(x)])
                        vs.append((vname, [str(i) for i in range(n)]))
                    elif mm.group(2) == '{':
                        kk = _match_brace(it, it.index('{'))
                        fs = []
                        for f in _split_items(it[it.index('{') + 1:kk]):
                            f = _strip_attrs(f)
                            m3 = re.match(r'(\w+)\s*:', f)
                            if m3: fs.append(m3.group(1))
                        vs.append((vname, fs))
                    else:
                        vs.append((vname, None))
                self.enums[name] = vs
        self.items[rel] = items

    def fn_generics(self, fn):
        """names of the type parameters declared on the fn itself (not the impl), from the source text"""
        key = ('fngen', fn.name)
        if key in self._impl_cache: return self._impl_cache[key]
        out = []
        meth = (fn.method or fn.name).split('::')[-1]
        if fn.impl is not None:
            txt = self.files[fn.impl[0]]; start = sum(len(l) + 1 for l in txt.split('\n')[:fn.impl[1] - 1])
            m = re.search(r'fn\s+%s\s*<([^>(]*)>\s*\(' % re.escape(meth), txt[start:])
            # must come before the next impl block
            nxt = re.search(r'\n(impl\b|#\[cfg\(test\)\])', txt[start + 5:])
            if m and (nxt is None or m.start() < nxt.start() + 5):
                out = [g.strip().split(':')[0].strip() for g in _split_items(m.group(1)) if g.strip() and not g.strip().startswith("'") and not g.strip().startswith('const ')]
        self._impl_cache[key] = out
        return out

    def variant_index(self, enum, variant):
        for i, (v, _) in enumerate(self.enums[enum]):
            if v == variant: return i
        raise KeyError((enum, variant))

    def enums_with_variant(self, variant):
        return [e for e, vs in self.enums.items() if any(v == variant for v, _ in vs)]

    def impl_info(self, span):
        """span = (file, l1, c1, l2, c2) -> dict(self_base, self_full, trait, generics, derive)"""
        if span in self._impl_cache: return self._impl_cache[span]
        file, l1, c1, l2, c2 = span
        lines = self.files[file].split('\n')
        if l1 == l2: snip = lines[l1 - 1][c1 - 1:c2 - 1]
        else: snip = '\n'.join([lines[l1 - 1][c1 - 1:]] + lines[l1:l2 - 1] + [lines[l2 - 1][:c2 - 1]])
        snip = ' '.join(snip.split())
        info = {'snippet': snip}
        m = re.match(r'impl\b', snip)
        if m:
            rest = snip[4:].strip()
            gen = ''
            if rest.startswith('<'):
                k = _match_angle(rest, 0)
                gen = rest[1:k]; rest = rest[k + 1:].strip()
            rest = re.split(r'\bwhere\b', rest)[0].strip()
            trait = None
            mm = re.search(r'\sfor\s', ' ' + rest)
            d, pos = 0, None
            for i in range(len(rest)):
                ch = rest[i]
                if ch == '<': d += 1
                elif ch == '>' and rest[i - 1] != '-': d -= 1
                elif d == 0 and rest.startswith(' for ', i): pos = i; break
            if pos is not None:
                trait, rest = rest[:pos].strip(), rest[pos + 5:].strip()
            info.update(self_full=rest, self_base=_base(rest), trait=trait, generics=[g.strip().split(':')[0].strip() for g in _split_items(gen)], derive=False)
        else:
            # derive span: Self = next struct/enum item at or after l1
            nxt = [(ln, kind, name) for (ln, kind, name) in self.items.get(file, []) if ln >= l1]
            name = min(nxt)[2] if nxt else None
            info.update(self_full=name, self_base=name, trait=snip.split('::')[-1], generics=[], derive=True)
        self._impl_cache[span] = info
        return info


def _match_angle(s, i):
    d = 0
    for j in range(i, len(s)):
        if s[j] == '<': d += 1
        elif s[j] == '>' and s[j - 1] != '-':
            d -= 1
            if d == 0: return j
    raise ValueError('unbalanced <>')


def _base(ty):
    """'&mut ty::Type<T>' -> 'Type';  '[T; N]' -> '[]' ; '(A, B)' -> '()'"""
    t = ty.strip()
    t = re.sub(r"^&\s*('\w+\s+)?(mut\s+)?", '', t)
    if t.startswith('['): return '[]'
    if t.startswith('('): return '()'
    t = re.sub(r'<.*$', '', t)
    return t.split('::')[-1].strip()
