"""mirsym engine: path-based symbolic execution of rustc MIR with z3.

One OS process per explored path suffix: a fork point (`choose`) asks z3 which alternatives are feasible under the
path condition and os.fork()s for all but one of them, so the interpreter and the std models are written in direct
(recursive) style, every process owns an incremental solver that already holds its path condition, and paths run in
parallel under a token semaphore.  Path ends report one JSON line each to an append-only results file.
"""
import os, re, sys, json, time, collections, traceback
import multiprocessing as mp
import z3
from . import mir as MIR

sys.setrecursionlimit(20000)


# ----------------------------------------------------------------------------- values
class Cell:
    __slots__ = ('v',)
    def __init__(self, v=None): self.v = v


class Ref:
    __slots__ = ('cell', 'path')
    def __init__(self, cell, path=()): self.cell, self.path = cell, tuple(path)
    def __repr__(self): return 'Ref(%x,%s)' % (id(self.cell) & 0xffff, self.path)


class EnumV:
    __slots__ = ('enum', 'discr', 'payloads')
    def __init__(self, enum, discr, payloads): self.enum, self.discr, self.payloads = enum, discr, payloads
    def __repr__(self): return 'EnumV(%s,%s,%s)' % (self.enum, self.discr, self.payloads)


class VecV:
    """Vec<T> / array-backed sequence: symbolic length (BV64) <= len(elems) (capacity of the model)"""
    __slots__ = ('len', 'elems')
    def __init__(self, ln, elems): self.len, self.elems = ln, elems
    def __repr__(self): return 'VecV(%s,%s)' % (self.len, self.elems)


class ArrVec:
    """Vec<T> as (length, z3 array) for inductive-mode harnesses"""
    __slots__ = ('len', 'data')
    def __init__(self, ln, data): self.len, self.data = ln, data


class MapV:
    """BTreeMap<K,V> as z3 arrays present: K->Bool, val: K->V"""
    __slots__ = ('present', 'val', 'extra')
    def __init__(self, present, val, extra=None): self.present, self.val, self.extra = present, val, extra


class ValSlice:
    """immutable slice / str contents: tuple of element values (bytes for str)"""
    __slots__ = ('elems', 'is_str')
    def __init__(self, elems, is_str=False): self.elems, self.is_str = tuple(elems), is_str
    def __repr__(self):
        if self.is_str and all(z3.is_bv_value(b) for b in self.elems):
            return 'Str(%r)' % bytes(b.as_long() for b in self.elems).decode('utf-8', 'replace')
        return 'ValSlice(%s)' % (self.elems,)


class Tok:
    """opaque constant; equality is identity of the name"""
    __slots__ = ('name',)
    def __init__(self, name): self.name = name
    def __repr__(self): return 'Tok(%s)' % self.name
    def __eq__(self, o): return isinstance(o, Tok) and o.name == self.name
    def __hash__(self): return hash(self.name)


class ClosureV:
    __slots__ = ('span', 'caps', 'tenv')
    def __init__(self, span, caps, tenv=None): self.span, self.caps, self.tenv = span, caps, tenv


class FnItem:
    __slots__ = ('name',)
    def __init__(self, name): self.name = name
    def __repr__(self): return 'FnItem(%s)' % self.name


class Panic(Exception): pass
class Inconclusive(Exception): pass
class PathEnd(Exception): pass


BITS = {'u8': 8, 'u16': 16, 'u32': 32, 'u64': 64, 'usize': 64, 'u128': 128, 'i8': 8, 'i16': 16, 'i32': 32, 'i64': 64,
        'isize': 64, 'i128': 128, 'char': 32}
SIGNED = {'i8', 'i16', 'i32', 'i64', 'isize', 'i128'}


def bv(v, w): return z3.BitVecVal(v, w)
def is_conc(v): return z3.is_bv_value(v) or z3.is_true(v) or z3.is_false(v)


def clone_val(v):
    """copy of a Copy-typed aggregate (refs, scalars shared)"""
    if isinstance(v, list): return [clone_val(x) for x in v]
    if isinstance(v, EnumV): return EnumV(v.enum, v.discr, {k: clone_val(p) for k, p in v.payloads.items()})
    return v


def deep_clone(v):
    """Clone::clone on owned model values"""
    if isinstance(v, list): return [deep_clone(x) for x in v]
    if isinstance(v, EnumV): return EnumV(v.enum, v.discr, {k: deep_clone(p) for k, p in v.payloads.items()})
    if isinstance(v, VecV): return VecV(v.len, [deep_clone(x) for x in v.elems])
    return v


class Frame:
    __slots__ = ('fn', 'loc', 'tenv')
    def __init__(self, fn, tenv=None): self.fn, self.loc, self.tenv = fn, {}, tenv


class Machine:
    def __init__(self, fns, decls, models, subst=(), jobs=14, deadline=None):
        self.fns, self.decls = fns, decls
        def widen(p):
            # call sites print std paths with or without their module prefix
            p = re.sub(r'^Option::<', r'(?:std::option::|core::option::)?Option::<', p)
            p = re.sub(r'^Result::<', r'(?:std::result::|core::result::)?Result::<', p)
            p = re.sub(r'^Vec::<', r'(?:std::vec::|alloc::vec::)?Vec::<', p)
            return p
        self.models = [(re.compile(widen(p)), m) for p, m in models]
        self.subst = [(re.compile(p), r) for p, r in subst]
        self.solver = z3.Solver()
        self.solver.set('timeout', int(os.environ.get('VERIF_Z3_TIMEOUT_MS', '120000')))
        self.stats = collections.Counter()
        self.callees_model, self.callees_mir = set(), set()
        self.jobs = jobs
        self.deadline = deadline
        self.replay = None
        self.children, self.has_token, self.is_root = [], False, True
        self.sem = None
        self.out_fd = None
        self.decisions = []          # human readable trail for samples
        self.aux = {}                # harness scratch (per process after fork)
        self._callee_cache = {}
        self._closure_index = None
        self._method_index = None
        self.remap = {}              # struct name -> {declared index: canonical index} when the source declares fields in another order than the value model
        self.canon = {}              # struct name -> canonical field order of the value model
        self.depth = 0
        self.max_depth = 400
        self.steps = 0
        self.max_steps = 2_000_000

    # ------------------------------------------------------------------ solver
    def add(self, c):
        self.solver.add(c)

    def check(self, cond=None):
        self.stats['queries'] += 1
        t = time.time()
        if cond is None: r = self.solver.check()
        else:
            self.solver.push(); self.solver.add(cond); r = self.solver.check(); self.solver.pop()
        self.stats['solver_ms'] += int((time.time() - t) * 1000)
        if r == z3.unknown: raise Inconclusive('solver unknown: ' + self.solver.reason_unknown())
        return r == z3.sat

    def model(self, cond=None):
        self.stats['queries'] += 1
        t = time.time()
        self.solver.push()
        if cond is not None: self.solver.add(cond)
        r = self.solver.check()
        m = self.solver.model() if r == z3.sat else None
        self.solver.pop()
        self.stats['solver_ms'] += int((time.time() - t) * 1000)
        if r == z3.unknown: raise Inconclusive('solver unknown')
        return m

    # ------------------------------------------------------------------ forking
    def choose(self, conds, label=None):
        """conds: exhaustive, mutually exclusive z3 Bools (under the path condition). returns the index taken on this path."""
        simp = [z3.simplify(c) for c in conds]
        for i, c in enumerate(simp):
            if z3.is_true(c): return i
        cand = [i for i, c in enumerate(simp) if not z3.is_false(c)]
        if self.replay is not None: return self._choose_replay(simp, cand, label)
        if self.deadline is not None and time.time() > self.deadline:
            self.emit('timeout', where=str(label)); raise PathEnd()
        feas = []
        for n, i in enumerate(cand):
            if n == len(cand) - 1 and not feas: feas.append(i); break      # exhaustive: last one must be feasible
            if self.check(simp[i]): feas.append(i)
        if not feas: raise Inconclusive('no feasible alternative at ' + str(label))
        self.stats['forks'] += len(feas) - 1
        for i in feas[:-1]:
            got = self.sem.acquire(block=False) if self.sem is not None else False
            sys.stdout.flush()
            pid = os.fork()
            if pid == 0:
                self.children, self.has_token, self.is_root = [], got, False
                self.stats = collections.Counter()
                self.add(simp[i]); self.decisions.append((label, i))
                return i
            if got: self.children.append(pid)
            else: os.waitpid(pid, 0)
        i = feas[-1]
        self.add(simp[i]); self.decisions.append((label, i))
        return i

    def _choose_replay(self, simp, cand, label):
        rp = self.replay
        if rp['pos'] < len(rp['script']):
            i = rp['script'][rp['pos']]
        else:
            feas = [i for i in cand if self.check(simp[i])]
            if not feas: raise Inconclusive('no feasible alternative (replay)')
            i = feas[0]
            for j in feas[1:]: rp['pending'].append(rp['taken'] + [j])
        rp['pos'] += 1; rp['taken'].append(i); rp['conds'].append(simp[i])
        self.solver.add(simp[i])
        return i

    def summarise(self, thunk):
        """explore a pure, scalar-valued computation completely by scripted re-execution and merge into one ITE term"""
        if self.replay is not None:
            return thunk()          # nested: just run under the outer script
        pending, results = [[]], []
        while pending:
            script = pending.pop()
            self.replay = {'script': script, 'pos': 0, 'taken': [], 'conds': [], 'pending': pending}
            self.solver.push()
            try:
                v = thunk()
                results.append((z3.And(self.replay['conds']) if self.replay['conds'] else z3.BoolVal(True), v))
            finally:
                self.solver.pop(); self.replay = None
        self.stats['summaries'] += 1; self.stats['summary_paths'] += len(results)
        out = results[-1][1]
        for c, v in reversed(results[:-1]): out = z3.If(c, v, out)
        return z3.simplify(out)

    def emit(self, kind, **data):
        data['kind'] = kind
        line = (json.dumps(data, default=str) + '\n').encode()
        os.write(self.out_fd, line)

    def finish_process(self):
        self.emit('stats', **dict(self.stats))
        if self.has_token:
            self.sem.release(); self.has_token = False
        for pid in self.children:
            try: os.waitpid(pid, 0)
            except ChildProcessError: pass
        self.children = []
        if not self.is_root:
            os._exit(0)

    def explore(self, body, results_path):
        """run body(self) in this process; forks happen inside. returns list of result dicts once all paths are done."""
        self.sem = mp.Semaphore(self.jobs)
        self.out_fd = os.open(results_path, os.O_WRONLY | os.O_CREAT | os.O_TRUNC | os.O_APPEND, 0o644)
        try:
            try:
                body(self)
            except PathEnd:
                pass
            except Inconclusive as e:
                self.emit('inconclusive', why=str(e), trail=[str(d) for d in self.decisions[-12:]])
            except Panic as e:
                self.emit('uncaught_panic', why=str(e))
            except Exception as e:
                self.emit('error', why=repr(e), tb=traceback.format_exc()[-1500:])
        finally:
            self.finish_process()
        os.close(self.out_fd); self.out_fd = None
        return [json.loads(l) for l in open(results_path)]

    # ------------------------------------------------------------------ concretisation
    def concrete(self, v, label='concretise', limit=64):
        """python int for a BV that the path condition forces, forking over the feasible values otherwise"""
        if isinstance(v, int): return v
        s = z3.simplify(v)
        if z3.is_bv_value(s): return s.as_long()
        m = self.model()
        if m is None: raise Inconclusive('infeasible path at concretise')
        vals = [m.eval(s, model_completion=True)]
        self.solver.push()
        self.solver.add(s != vals[0])
        while len(vals) <= limit:
            self.stats['queries'] += 1
            if self.solver.check() != z3.sat: break
            x = self.solver.model().eval(s, model_completion=True); vals.append(x); self.solver.add(s != x)
        self.solver.pop()
        if len(vals) > limit: raise Inconclusive('too many values to concretise at ' + label)
        if len(vals) == 1:
            return vals[0].as_long()
        i = self.choose([s == x for x in vals], label)
        return vals[i].as_long()

    def concrete_bool(self, b, label='branch'):
        s = z3.simplify(b)
        if z3.is_true(s): return True
        if z3.is_false(s): return False
        return self.choose([s, z3.Not(s)], label) == 0

    # ------------------------------------------------------------------ memory
    def step_into(self, o, p):
        if isinstance(p, int):
            if isinstance(o, ClosureV): return o.caps[p]
            return o[p]
        k, i = p
        if k == 'v': return o.payloads[i]
        if k == 'e':
            if isinstance(o, (VecV, ValSlice)): return o.elems[i]
            return o[i]
        raise Inconclusive('path step ' + str(p))

    def load(self, ref):
        o = ref.cell.v
        for p in ref.path: o = self.step_into(o, p)
        return o

    def store(self, ref, v):
        if not ref.path:
            ref.cell.v = v; return
        o = ref.cell.v
        for p in ref.path[:-1]: o = self.step_into(o, p)
        p = ref.path[-1]
        if isinstance(p, int):
            if isinstance(o, ClosureV): o.caps[p] = v
            else:
                while len(o) <= p: o.append(None)
                o[p] = v
        elif p[0] == 'v': o.payloads[p[1]] = v
        elif p[0] == 'e':
            if isinstance(o, VecV): o.elems[p[1]] = v
            elif isinstance(o, ValSlice): raise Inconclusive('store into immutable slice')
            else: o[p[1]] = v

    # ------------------------------------------------------------------ places
    def place(self, fr, p):
        k = p[0]
        if k == 'local':
            c = fr.loc.get(p[1])
            if c is None: c = fr.loc[p[1]] = Cell(None)
            return Ref(c)
        if k == 'deref':
            inner = self.load(self.place(fr, p[1]))
            if isinstance(inner, Ref): return inner
            raise Inconclusive('deref of non-reference %r in %s' % (inner, fr.fn.name))
        if k == 'field':
            r = self.place(fr, p[1])
            i = p[2]
            if self.remap:
                t = self.place_type(fr, p[1])
                if t is not None:
                    from .decls import _base
                    mp = self.remap.get(_base(t))
                    if mp is not None: i = mp.get(i, i)
            return Ref(r.cell, r.path + (i,))
        if k == 'downcast':
            r = self.place(fr, p[1])
            e = self.load(r)
            if not isinstance(e, EnumV): raise Inconclusive('downcast of non-enum %r' % (e,))
            return Ref(r.cell, r.path + (('v', self.variant_index(e.enum, p[2])),))
        if k == 'index':
            r = self.place(fr, p[1])
            idx = self.load(self.place(fr, ('local', p[2])))
            i = self.concrete(idx, 'index')
            return Ref(r.cell, r.path + (('e', i),))
        if k == 'constidx':
            r = self.place(fr, p[1])
            if p[3]:
                o = self.load(r); n = len(o.elems) if isinstance(o, (VecV, ValSlice)) else len(o)
                return Ref(r.cell, r.path + (('e', n - p[2]),))
            return Ref(r.cell, r.path + (('e', p[2]),))
        raise Inconclusive('place kind ' + k)

    def place_type(self, fr, p):
        """type string of a place when it can be read off the MIR text (locals are declared, field projections are annotated)"""
        k = p[0]
        if k == 'local': return fr.fn.locals.get(p[1])
        if k == 'field': return p[3]
        if k == 'deref':
            t = self.place_type(fr, p[1])
            if t is None: return None
            t = t.strip()
            m = re.match(r"^&\s*('\w+\s+)?(mut\s+)?(.*)$", t)
            if m: return m.group(3)
            m = re.match(r'^(?:std::boxed::)?Box<(.*)>$', t)
            return m.group(1) if m else None
        if k == 'downcast': return self.place_type(fr, p[1])
        if k in ('index', 'constidx'):
            t = self.place_type(fr, p[1])
            if t is None: return None
            m = re.match(r'^(?:std::vec::)?Vec<(.*)>$', t.strip()) or re.match(r'^\[(.*?)(; \d+)?\]$', t.strip())
            return m.group(1) if m else None
        return None

    def install_layout(self, canon):
        """canon: struct -> canonical field order used by the value model. The declared order is read from the sources; a different ORDER is
        handled by remapping projections and aggregates, a different SET of fields makes the run inconclusive"""
        for name, fields in canon.items():
            decl = self.decls.structs.get(name)
            if decl is None or sorted(decl) != sorted(fields): raise Inconclusive('declaration of %s changed: %s (value model expects the fields %s)' % (name, decl, fields))
            self.canon[name] = list(fields)
            if decl != list(fields): self.remap[name] = {i: fields.index(f) for i, f in enumerate(decl)}

    def variant_index(self, enum, variant):
        if enum is not None and enum in self.decls.enums:
            return self.decls.variant_index(enum, variant)
        c = self.decls.enums_with_variant(variant)
        if len(c) == 1: return self.decls.variant_index(c[0], variant)
        if enum is None and variant in ('Some', 'None'): return self.decls.variant_index('Option', variant)
        raise Inconclusive('ambiguous variant %s (enum %s)' % (variant, enum))

    # ------------------------------------------------------------------ operands / constants
    def operand(self, fr, op):
        k = op[0]
        if k == 'move': return self.load(self.place(fr, op[1]))
        if k == 'copy': return clone_val(self.load(self.place(fr, op[1])))
        if k == 'const': return self.const(fr, op[1])
        if k == 'fnitem': return FnItem(self.subst_tenv(op[1], fr.tenv) if fr.tenv else op[1])
        raise Inconclusive('operand kind ' + k)

    def const(self, fr, s):
        if s == 'true': return z3.BoolVal(True)
        if s == 'false': return z3.BoolVal(False)
        m = re.fullmatch(r'(-?\d+)_(\w+)', s)
        if m and m.group(2) in BITS: return bv(int(m.group(1)), BITS[m.group(2)])
        if s == '()': return []
        if s.startswith('"'): return self.str_const(s)
        if s.startswith('b"'):
            body = s[2:-1]
            raw = bytes(body, 'latin-1').decode('unicode_escape').encode('latin-1')
            return Ref(Cell(ValSlice([bv(b, 8) for b in raw])))
        if s.startswith("'"):
            body = s[1:-1]
            ch = {'\\n': '\n', '\\t': '\t', "\\'": "'", '\\\\': '\\'}.get(body, body)
            if len(ch) == 1: return bv(ord(ch), 32)
        m = re.fullmatch(r"b'(.)'", s)
        if m: return bv(ord(m.group(1)), 8)
        m = re.fullmatch(r'core::num::<impl (\w+)>::(MAX|MIN)', s)
        if m:
            w = BITS[m.group(1)]; sg = m.group(1) in SIGNED
            if m.group(2) == 'MAX': return bv(2 ** (w - 1) - 1 if sg else 2 ** w - 1, w)
            return bv(2 ** (w - 1) if sg else 0, w)
        if s.startswith('ZeroSized: '):
            t = s[len('ZeroSized: '):]
            mm = re.fullmatch(r'\{closure@([^}]+)\}', t)
            if mm: return ClosureV(mm.group(1), [], fr.tenv if fr is not None else None)
            if t.startswith('fn(') or re.match(r"^(for<[^>]*> )?fn\(", t):
                mm = re.search(r'\{(.+)\}$', t)
                if mm: return FnItem(mm.group(1))
            if re.match(r'^(std::marker::)?PhantomData', t): return None
            return Tok('ZST:' + t)
        if re.match(r'^(std::marker::|core::marker::)?PhantomData(::<.*>)?$', s): return None
        pm = re.search(r'promoted\[(\d+)\]$', s)
        if pm:
            body = fr.fn.promoted.get(int(pm.group(1)))
            if body is None: raise Inconclusive('promoted const not found: ' + s)
            return self.run_fn(body, [])
        mu = re.fullmatch(r'(?:[\w]+::)*(\w+)(?:::<.*>)?::(\w+)', s)
        if mu and mu.group(1) in self.decls.enums and any(v == mu.group(2) and f is None for v, f in self.decls.enums[mu.group(1)]):
            k = self.decls.variant_index(mu.group(1), mu.group(2)); return EnumV(mu.group(1), k, {k: []})
        nc = MIR.NAMED_CONSTS.get(s.split('::')[-1])
        if nc is not None and (re.fullmatch(r'[\w:]+', s) or re.fullmatch(r'<.*>(::\w+)*::[A-Z][A-Z0-9_]*', s)): return self.const(fr, nc)
        hook = self.aux.get('const_hook')
        if hook is not None:
            r = hook(self, s)
            if r is not NotImplemented: return r
        if re.fullmatch(r'[\w:]+(<.*>)? \{\{ *\}\}', s): return []       # value of a field-less struct (e.g. the no_std parity_scale_codec::Error)
        raise Inconclusive('const: ' + s)

    def str_const(self, s):
        body = s[1:-1]
        try:
            txt = bytes(body, 'utf-8').decode('unicode_escape').encode('latin-1').decode('utf-8') if '\\' in body else body
        except Exception:
            txt = body
        return ValSlice([bv(b, 8) for b in txt.encode('utf-8')], is_str=True)

    # ------------------------------------------------------------------ rvalues
    def rvalue(self, fr, rv):
        k = rv[0]
        if k == 'use': return self.operand(fr, rv[1])
        if k == 'ref': return self.place(fr, rv[1])
        if k == 'binop': return self.binop(fr, rv[1], self.operand(fr, rv[2]), self.operand(fr, rv[3]), rv[2])
        if k == 'unop':
            a = self.operand(fr, rv[2])
            if rv[1] == 'Not': return z3.Not(a) if z3.is_bool(a) else ~a
            if rv[1] == 'Neg': return -a
            if rv[1] == 'PtrMetadata': return self.seq_len(a)
        if k == 'discr':
            e = self.load(self.place(fr, rv[1]))
            if not isinstance(e, EnumV): raise Inconclusive('discriminant of %r' % (e,))
            return e.discr if not isinstance(e.discr, int) else bv(e.discr, 64)
        if k == 'len': return self.seq_len(self.place(fr, rv[1]))
        if k == 'cast': return self.cast(fr, self.operand(fr, rv[1]), rv[2], rv[3], rv[1])
        if k == 'tuple': return [self.operand(fr, o) for o in rv[1]]
        if k == 'array': return [self.operand(fr, o) for o in rv[1]]
        if k == 'repeat':
            v = self.operand(fr, rv[1]); n = int(re.match(r'(\d+)', rv[2]).group(1))
            return [clone_val(v) for _ in range(n)]
        if k == 'closure': return ClosureV(rv[1], [self.operand(fr, o) for o in rv[2]], fr.tenv)
        if k == 'adt_named':
            segs, kv = rv[1], rv[2]
            name, en, vi = self.adt_head(segs)
            vals = {f: self.operand(fr, o) for f, o in kv}
            if en is not None:
                order = self.decls.enums[en][vi][1] or []
                return EnumV(en, vi, {vi: [vals[f] for f in order]})
            order = self.canon.get(name) or self.decls.structs.get(name)
            if order is None:
                # a struct with no declaration in the sources (generated by a macro, e.g. serde's `__SerializeWith`): rustc's MIR printer lists
                # the fields of an aggregate in declaration (= index) order, which is the order place projections use
                order = [f for f, _ in kv]; self.canon[name] = order
            if set(order) != set(vals): raise Inconclusive('struct fields mismatch for %s: %s vs %s' % (name, order, list(vals)))
            return [vals[f] for f in order]
        if k == 'adt_tuple':
            name, en, vi = self.adt_head(rv[1])
            vals = [self.operand(fr, o) for o in rv[2]]
            if en is not None: return EnumV(en, vi, {vi: vals})
            return vals
        if k == 'adt_unit':
            last = rv[1][-1]
            mf = re.fullmatch(r'__field(\d+)', last)
            if mf: return EnumV('__Field', int(mf.group(1)), {int(mf.group(1)): []})
            if last == '__ignore':
                # serde's generated field identifier enum: __field0..__field{k-1}, __ignore (= k); k read off the generating function
                ks = {int(x) for l in fr.fn.lines for x in re.findall(r'__field(\d+)', l)}
                kk = max(ks) + 1 if ks else 0
                return EnumV('__Field', kk, {kk: []})
            name, en, vi = self.adt_head(rv[1])
            if en is not None: return EnumV(en, vi, {vi: []})
            return []
        raise Inconclusive('rvalue kind ' + k)

    def adt_head(self, segs):
        segs = [s for s in segs if not s.startswith('<')]
        last = re.sub(r'<.*', '', segs[-1])
        if len(segs) >= 2:
            en = re.sub(r'<.*', '', segs[-2])
            if en in self.decls.enums and any(v == last for v, _ in self.decls.enums[en]):
                return last, en, self.decls.variant_index(en, last)
        if last in self.decls.structs or len(segs) == 1: return last, None, None
        c = self.decls.enums_with_variant(last)
        if len(c) == 1: return last, c[0], self.decls.variant_index(c[0], last)
        return last, None, None

    def seq_len(self, a):
        o = self.load(a) if isinstance(a, Ref) else a
        if isinstance(o, VecV): return o.len if not isinstance(o.len, int) else bv(o.len, 64)
        if isinstance(o, ArrVec): return o.len
        if isinstance(o, ValSlice): return bv(len(o.elems), 64)
        if isinstance(o, list): return bv(len(o), 64)
        raise Inconclusive('len of %r' % (o,))

    def opty(self, fr, op):
        """type string of an operand if cheaply known"""
        if op[0] in ('copy', 'move'):
            p = op[1]
            if p[0] == 'local': return fr.fn.locals.get(p[1])
            if p[0] == 'field': return p[3]
        if op[0] == 'const':
            m = re.fullmatch(r'-?\d+_(\w+)', op[1])
            if m: return m.group(1)
        return None

    def binop(self, fr, name, a, b, aop):
        if name in ('Eq', 'Ne'):
            r = self.val_eq(a, b)
            return r if name == 'Eq' else z3.Not(r)
        if z3.is_bool(a):
            if name == 'BitAnd': return z3.And(a, b)
            if name == 'BitOr': return z3.Or(a, b)
            if name == 'BitXor': return z3.Xor(a, b)
        t = self.opty(fr, aop)
        signed = t in SIGNED if t else False
        if name in ('Lt', 'Le', 'Gt', 'Ge'):
            if t is None and not z3.is_bv(a): raise Inconclusive('compare non-bv')
            f = {('Lt', False): z3.ULT, ('Le', False): z3.ULE, ('Gt', False): z3.UGT, ('Ge', False): z3.UGE,
                 ('Lt', True): lambda x, y: x < y, ('Le', True): lambda x, y: x <= y, ('Gt', True): lambda x, y: x > y, ('Ge', True): lambda x, y: x >= y}[(name, signed)]
            return f(a, b)
        if name in ('Add', 'AddUnchecked'): return a + b
        if name in ('Sub', 'SubUnchecked'): return a - b
        if name in ('Mul', 'MulUnchecked'): return a * b
        if name == 'BitAnd': return a & b
        if name == 'BitOr': return a | b
        if name == 'BitXor': return a ^ b
        if name in ('Shl', 'ShlUnchecked'):
            return a << self.fit(b, a.size())
        if name in ('Shr', 'ShrUnchecked'):
            return (a >> self.fit(b, a.size())) if signed else z3.LShR(a, self.fit(b, a.size()))
        if name == 'Div': return (a / b) if signed else z3.UDiv(a, b)
        if name == 'Rem': return z3.SRem(a, b) if signed else z3.URem(a, b)
        if name in ('AddWithOverflow', 'SubWithOverflow', 'MulWithOverflow'):
            w = a.size()
            ext = (lambda x: z3.SignExt(w, x)) if signed else (lambda x: z3.ZeroExt(w, x))
            wide = {'A': ext(a) + ext(b), 'S': ext(a) - ext(b), 'M': ext(a) * ext(b)}[name[0]]
            res = z3.Extract(w - 1, 0, wide)
            ovf = wide != ext(res)
            return [z3.simplify(res), z3.simplify(ovf)]
        raise Inconclusive('binop ' + name)

    def fit(self, b, w):
        if b.size() == w: return b
        return z3.Extract(w - 1, 0, b) if b.size() > w else z3.ZeroExt(w - b.size(), b)

    def val_eq(self, a, b):
        if isinstance(a, Tok) or isinstance(b, Tok): return z3.BoolVal(a == b)
        if a is None and b is None: return z3.BoolVal(True)
        if z3.is_expr(a) and z3.is_expr(b): return a == b
        if isinstance(a, list) and isinstance(b, list) and len(a) == len(b):
            return z3.And([self.val_eq(x, y) for x, y in zip(a, b)]) if a else z3.BoolVal(True)
        if isinstance(a, ValSlice) and isinstance(b, ValSlice):
            if len(a.elems) != len(b.elems): return z3.BoolVal(False)
            return z3.And([self.val_eq(x, y) for x, y in zip(a.elems, b.elems)]) if a.elems else z3.BoolVal(True)
        if isinstance(a, VecV) and isinstance(b, VecV):
            al = a.len if not isinstance(a.len, int) else bv(a.len, 64); bl = b.len if not isinstance(b.len, int) else bv(b.len, 64)
            cs = [al == bl]
            for j in range(max(len(a.elems), len(b.elems))):
                inb = z3.ULT(bv(j, 64), al)
                if j < len(a.elems) and j < len(b.elems): cs.append(z3.Implies(inb, self.val_eq(a.elems[j], b.elems[j])))
                else: cs.append(z3.Not(z3.And(inb, z3.ULT(bv(j, 64), bl))))
            return z3.And(cs)
        if isinstance(a, EnumV) and isinstance(b, EnumV):
            ad = a.discr if not isinstance(a.discr, int) else bv(a.discr, 64); bd = b.discr if not isinstance(b.discr, int) else bv(b.discr, 64)
            cs = [ad == bd]
            for k, p in a.payloads.items():
                if k in b.payloads: cs.append(z3.Implies(ad == bv(k, 64), self.val_eq(p, b.payloads[k])))
                else: cs.append(ad != bv(k, 64))
            return z3.And(cs)
        if isinstance(a, Ref) and isinstance(b, Ref): return self.val_eq(self.load(a), self.load(b))
        raise Inconclusive('equality of %r and %r' % (a, b))

    def cast(self, fr, v, ty, kind, op):
        if kind.startswith('IntToInt'):
            w = BITS.get(ty)
            if w is None: raise Inconclusive('cast to ' + ty)
            if z3.is_bool(v): v = z3.If(v, bv(1, w), bv(0, w)); return v
            if isinstance(v, EnumV): v = v.discr if not isinstance(v.discr, int) else bv(v.discr, 64)
            if v.size() > w: return z3.simplify(z3.Extract(w - 1, 0, v))
            if v.size() < w:
                st = self.opty(fr, op)
                return z3.simplify(z3.SignExt(w - v.size(), v) if st in SIGNED else z3.ZeroExt(w - v.size(), v))
            return v
        if kind.startswith('PointerCoercion') or kind.startswith(('PtrToPtr', 'Transmute')):
            return v          # unsizing: &[T;N] -> &[T], &T -> &dyn Tr, fn item -> fn pointer keep the same model value
        if kind.startswith(('PointerExposeProvenance', 'FnPtrToPtr')):
            if isinstance(v, (Tok, FnItem)): return z3.BitVec('addr:%s' % v.name, BITS.get(ty, 64))
            if z3.is_bv(v): return v
        raise Inconclusive('cast kind ' + kind)

    # ------------------------------------------------------------------ execution
    def run_fn(self, fn, args, tenv=None):
        self.depth += 1
        if self.depth > self.max_depth:
            self.depth -= 1
            raise Panic('depth budget exceeded (candidate non-termination) in ' + fn.name)
        fr = Frame(fn, tenv)
        for (n, _), a in zip(fn.args, args): fr.loc[n] = Cell(a)
        bb = 'bb0'
        try:
            while True:
                blk = fn.parsed.get(bb)
                if blk is None:
                    blk = fn.parsed[bb] = [MIR.parse_stmt(l) for l in fn.blocks[bb]]
                nxt = None
                for st in blk:
                    self.steps += 1
                    k = st[0]
                    if k == 'assign':
                        self.store(self.place(fr, st[1]), self.rvalue(fr, st[2]))
                    elif k == 'nop':
                        pass
                    elif k == 'goto':
                        nxt = st[1]
                    elif k == 'return':
                        c = fr.loc.get(0)
                        return c.v if c is not None else []
                    elif k == 'switch':
                        nxt = self.switch(fr, st)
                    elif k == 'call':
                        args2 = [self.operand(fr, a) for a in st[3]]
                        if st[2].startswith(('move _', 'copy _', 'move (', 'copy (')):
                            v = self.call_value(self.operand(fr, MIR.parse_operand(st[2])), args2)
                        else:
                            t0 = None
                            if st[3] and st[3][0][0] in ('move', 'copy'):
                                try: t0 = self.place_type(fr, st[3][0][1])
                                except Exception: t0 = None
                            v = self.call(st[2], args2, fr, argtype0=t0)
                        if st[4] is None: raise Panic('diverging call returned: ' + st[2])
                        self.store(self.place(fr, st[1]), v)
                        nxt = st[4]
                    elif k == 'assert':
                        c = self.operand(fr, st[2])
                        if st[1]: c = z3.Not(c)
                        if not self.concrete_bool(c, 'assert'):
                            raise Panic('MIR assert failed in %s: %s' % (fn.name, st[3]))
                        nxt = st[4]
                    elif k == 'setdiscr':
                        r = self.place(fr, st[1]); e = self.load(r)
                        if isinstance(e, EnumV): e.discr = st[2]; e.payloads.setdefault(st[2], [])
                        else: self.store(r, EnumV(None, st[2], {st[2]: []}))
                    elif k == 'unreachable':
                        raise Inconclusive('unreachable reached in ' + fn.name)
                    else:
                        raise Inconclusive('statement kind ' + k)
                if self.steps > self.max_steps: raise Panic('step budget exceeded (candidate non-termination)')
                if nxt is None: raise Inconclusive('fell off block %s in %s' % (bb, fn.name))
                bb = nxt
        finally:
            self.depth -= 1

    def switch(self, fr, st):
        v = self.operand(fr, st[1]); arms, other = st[2], st[3]
        if z3.is_bool(v):
            conds = [(z3.Not(v) if c == 0 else v) for c, _ in arms]
        else:
            if isinstance(v, EnumV): v = v.discr if not isinstance(v.discr, int) else bv(v.discr, 64)
            conds = [v == bv(c & (2 ** v.size() - 1), v.size()) for c, _ in arms]
        tgts = [t for _, t in arms]
        if other is not None:
            conds.append(z3.Not(z3.Or(conds)) if conds else z3.BoolVal(True)); tgts.append(other)
        return tgts[self.choose(conds, 'switch@' + fr.fn.method if fr.fn.method else 'switch')]

    # ------------------------------------------------------------------ calls
    def normalise(self, c):
        # no_std builds name alloc items through the crate's prelude module
        if 'prelude::' in c: c = c.replace('prelude::alloc::', 'alloc::').replace('prelude::core::', 'core::')
        for p, r in self.subst: c = p.sub(r, c)
        return c

    def subst_tenv(self, callee, tenv):
        for g, t in tenv.items():
            callee = re.sub(r'(?<![\w:])%s(?![\w])' % re.escape(g), lambda m: t, callee)
        return callee

    def callee_tenv(self, fn, norm):
        """type environment of the callee frame: generic parameter names (from the source) bound to the explicit arguments at the call site"""
        if fn.impl is None and '::<' not in norm: return None
        names = self.decls.fn_generics(fn) if hasattr(self.decls, 'fn_generics') else []
        if not names: return None
        if not norm.endswith('>'): return None
        d, k = 0, len(norm) - 1
        while k >= 0:
            ch = norm[k]
            if ch == '>' and norm[k - 1] not in '-=': d += 1
            elif ch == '<':
                d -= 1
                if d == 0: break
            k -= 1
        if k < 2 or norm[k - 2:k] != '::': return None
        args = MIR.split_top(norm[k + 1:-1])
        args = [a for a in args if not a.startswith("'")]
        if len(args) != len(names): return None
        return dict(zip(names, args))

    def call(self, callee, args, fr=None, argtype0=None):
        if fr is not None and fr.tenv:
            callee = self.subst_tenv(callee, fr.tenv)
            if argtype0: argtype0 = self.subst_tenv(argtype0, fr.tenv)
        ckey = (callee, argtype0)
        ent = self._callee_cache.get(ckey)
        if ent is None:
            self.aux['_argtype0_hint'] = argtype0
            norm = self.normalise(callee)
            ent = None
            for p, m in self.models:
                if p.fullmatch(norm): ent = ('model', m, norm); break
            if ent is None:
                fn = self.resolve(norm)
                if fn is None: raise Inconclusive('unmodelled callee: ' + norm)
                ent = ('mir', fn, norm)
            self._callee_cache[ckey] = ent
        if ent[0] == 'model':
            self.callees_model.add(ent[2]); self.stats['model_calls'] += 1
            return ent[1](self, args, ent[2], fr)
        self.callees_mir.add(ent[1].name)
        if ent[2].startswith('<{closure@') and len(args) == 2 and isinstance(args[1], list) and re.search(r' as Fn(Mut|Once)?<', ent[2]):
            # <closure as Fn<(A, B)>>::call(&closure, (a, b)): the argument tuple is spread over the closure body's parameters
            fn = ent[1]
            self_arg = args[0]
            if not fn.args[0][1].startswith('&'): self_arg = self.load(self_arg) if isinstance(self_arg, Ref) else self_arg
            elif not isinstance(self_arg, Ref): self_arg = Ref(Cell(self_arg))
            return self.run_fn(fn, [self_arg] + list(args[1]), self.callee_tenv(fn, ent[2]))
        return self.run_fn(ent[1], args, self.callee_tenv(ent[1], ent[2]))

    def call_value(self, f, args):
        """invoke a closure value / fn item with the given argument values"""
        if isinstance(f, Ref): f = self.load(f)
        if isinstance(f, ClosureV):
            fn = self.closure_fn(f.span, len(args) + 1)
            self_arg = Ref(Cell(f)) if fn.args[0][1].startswith('&') else f
            return self.run_fn(fn, [self_arg] + list(args), f.tenv)
        if isinstance(f, FnItem): return self.call(f.name, list(args))
        if callable(f): return f(self, *args)
        raise Inconclusive('call of non-function value %r' % (f,))

    def closure_fn(self, span, nargs):
        if self._closure_index is None:
            self._closure_index = collections.defaultdict(list)
            for f in self.fns.values():
                if '{closure#' in f.name and f.args:
                    m = re.search(r'\{closure@([^}]+)\}', f.args[0][1])
                    if m: self._closure_index[m.group(1)].append(f)
        c = [f for f in self._closure_index.get(span, []) if len(f.args) == nargs]
        j = self.aux.get('instance_index')
        if j and len(c) == 1:
            # executing the j-th further instance of a macro-generated impl: its closures are the j-th further bodies of the same name
            inst = getattr(self.fns, 'instances', {}).get(c[0].name, [])
            if len(inst) >= j: return inst[j - 1]
        if len(c) == 1: return c[0]
        if len(c) > 1:
            # closures of one macro expansion share a span: prefer the outermost (fewest closure levels)
            c.sort(key=lambda f: f.name.count('{closure#'))
            if c[0].name.count('{closure#') < c[1].name.count('{closure#'): return c[0]
        raise Inconclusive('closure %s/%d: %d candidates' % (span, nargs, len(c)))

    def method_index(self):
        if self._method_index is None:
            idx = collections.defaultdict(list)
            for f in self.fns.values():
                if f.kind != 'fn': continue
                meth = f.method or f.name
                if '{closure#' in meth: continue
                last = meth.split('::')[-1] if not meth.endswith('>') else meth
                idx[re.sub(r'::<.*$', '', last)].append(f)
            self._method_index = idx
        return self._method_index

    def resolve(self, callee):
        """callee string as printed at the call site -> local Fn (or None)"""
        if callee in self.fns: return self.fns[callee]
        m = re.fullmatch(r'<\{closure@([^}]+)\} as Fn(?:Mut|Once)?<\((.*)\)>>::call(?:_mut|_once)?', callee)
        if m:
            n = len(MIR.split_top(m.group(2)))
            return self.closure_fn(m.group(1), n + 1)
        from .decls import _base
        trait, self_ty, meth = None, None, None
        m = re.fullmatch(r'<(.+) as ([^>]+(?:<.*>)?)>::(\w+)(?:::<.*>)?', callee)
        if m and MIR._balanced(m.group(1)):
            parts = _split_as(callee)
            if parts: self_ty, trait, meth = parts
        if meth is None:
            raw = [s for s in MIR.split_top(callee.replace('::', '\x00'), '\x00')]
            segs = []
            for sgm in raw:
                if sgm.startswith('<') and not sgm.startswith('<impl'):
                    if segs: segs[-1] = segs[-1] + sgm          # Foo::<A, B> -> 'Foo<A, B>'
                else: segs.append(sgm)
            meth = re.sub(r'<.*', '', segs[-1])
            self_ty = segs[-2] if len(segs) >= 2 else None
        cands = self.method_index().get(meth, [])
        if not cands: return None
        mh = re.search(r"<impl (?:[\w:]+::)?(\w+)(?:<.*?>)? for ([\w:]+)(?:<.*>)?>::\w+::(__\w+)", self_ty or '')
        if mh:
            # helper type generated inside a derive (serde's __Field / __Visitor of `impl Deserialize for Owner`)
            owner, helper = mh.group(2).split('::')[-1], mh.group(3)
            o = [f for f in cands if f.impl is not None and self.decls.impl_info(f.impl)['self_base'] == owner and helper in f.ret and f.name.count('<impl at') >= 2]
            if len(o) == 1: return o[0]
        mg = re.match(r"&?(?:mut )?(__\w+)\b", self_ty or '')
        if mg:
            # helper type generated inside a derive and named at the call site without its owner (serde's `__SerializeWith<'_, T>` for a
            # `serialize_with` field): its impl is nested in the owner's derived impl; identify it by the receiver type of the method
            o = [f for f in cands if f.name.count('<impl at') >= 2 and f.args and re.match(r"&?(?:mut )?%s\b" % mg.group(1), f.args[0][1])]
            if len(o) == 1: return o[0]
        if self_ty is None:
            c = [f for f in cands if f.impl is None]
            return c[0] if len(c) == 1 else None
        base = _base(self_ty)
        out = []
        for f in cands:
            if f.impl is None:
                if f.name.split('::')[-1] == meth and (base in f.name.split('::')): out.append(f)
                continue
            info = self.decls.impl_info(f.impl)
            if info['self_base'] != base: continue
            if trait is not None:
                if info['trait'] is None or _base(info['trait']) != _base(trait): continue
            out.append(f)
        if len(out) > 1 and trait is None:
            o2 = [f for f in out if self.decls.impl_info(f.impl)['trait'] is None]
            if o2: out = o2
        if len(out) > 1 and trait is not None:
            # impls generated by one macro (From<X> for Y, ...): pick by the trait's type argument against the first parameter type
            ta = re.search(r'<(.*)>', trait)
            if ta:
                want = _base(MIR.split_top(ta.group(1))[0])
                o2 = [f for f in out if f.args and _base(f.args[0][1]) == want]
                if len(o2) == 1: out = o2
        if len(out) > 1:
            # disambiguate impls for different instantiations (Path<MetaForm> vs Path<PortableForm>) by generic args
            gen = re.search(r'<(.*)>', self_ty)
            if gen:
                o2 = [f for f in out if gen.group(1).replace(' ', '') in self.decls.impl_info(f.impl)['self_full'].replace(' ', '')]
                if len(o2) == 1: out = o2
                else:
                    # positional unification of the generic arguments; the impl's own type parameters are wildcards
                    cargs = [a.split('::')[-1].strip() for a in MIR.split_top(gen.group(1))]
                    o3 = []
                    for f in out:
                        info = self.decls.impl_info(f.impl)
                        ig = re.search(r'<(.*)>', info['self_full'])
                        iargs = [a.split('::')[-1].strip() for a in MIR.split_top(ig.group(1))] if ig else []
                        if len(iargs) != len(cargs): continue
                        if all(ia in info['generics'] or ia == ca or ca in info['generics'] or re.fullmatch(r'[A-Z]\w?', ca) for ia, ca in zip(iargs, cargs)): o3.append(f)
                    if len(o3) == 1: out = o3
            if len(out) > 1:
                o2 = [f for f in out if f.kind == 'fn' and len(f.args) == self.aux.get('_nargs_hint', len(f.args))]
                if len(o2) == 1: out = o2
        if len(out) > 1:
            # nested helper impls of a derive (serde's __Field / __Visitor) share the span of the outer impl: tell them apart by the result type
            inner = '__Field' in self_ty or '__Visitor' in self_ty
            tag = '__Field' if '__Field' in self_ty else '__Visitor'
            o2 = [f for f in out if (tag in f.ret) == inner] if inner else [f for f in out if '__Field' not in f.ret and '__Visitor' not in f.ret]
            if inner and len(o2) > 1:
                owner = re.search(r'for ([\w:]+)', self_ty)
                if owner: o2 = [f for f in o2 if owner.group(1).split('::')[-1] in f.ret] or o2
            if len(o2) > 1:
                k = min(f.name.count('<impl at') for f in o2); o2 = [f for f in o2 if f.name.count('<impl at') == k]
            if len(o2) == 1: out = o2
        if len(out) > 1:
            # same method on the MetaForm and the PortableForm instantiation of a builder: the type of the receiver at the call site decides
            # (rustc prints the default form parameter - MetaForm - as nothing)
            t0 = self.aux.get('_argtype0_hint')
            if t0 and not re.search(r'\b[A-Z]\b', t0):
                portable = 'PortableForm' in t0
                o2 = [f for f in out if f.args and ('PortableForm' in f.args[0][1]) == portable]
                if len(o2) == 1: out = o2
        if len(out) == 1: return out[0]
        if len(out) > 1: raise Inconclusive('ambiguous callee %s: %s' % (callee, [f.name for f in out][:4]))
        return None


def _split_as(callee):
    """'<Self as Trait>::meth[::<..>]' -> (Self, Trait, meth)"""
    if not callee.startswith('<'): return None
    d = 0
    for i, ch in enumerate(callee):
        if ch == '<': d += 1
        elif ch == '>' and callee[i - 1] not in '-=':
            d -= 1
            if d == 0:
                inner, rest = callee[1:i], callee[i + 1:]
                break
    else:
        return None
    d = 0; pos = None
    for i, ch in enumerate(inner):
        if ch in '<([': d += 1
        elif ch in ')]' or (ch == '>' and inner[i - 1] not in '-='): d -= 1
        elif d == 0 and inner.startswith(' as ', i): pos = i
    if pos is None: return None
    m = re.match(r'::(\w+)', rest)
    if not m: return None
    return inner[:pos], inner[pos + 4:], m.group(1)
