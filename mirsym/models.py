"""std-model table of engine M (the trusted base, DESIGN.md §2.4).

Every entry gives the documented semantics of one core/alloc function over the value model of engine.py.
Signature: model(M, args, callee, frame) -> value.  Entries may call back into MIR (closures, fn items, trait methods)
through M.call_value / M.call, may fork through M.choose / M.concrete*, and raise Panic for documented panics.
"""
import re
import z3
from .engine import *


def opt_none(): return EnumV('Option', 0, {0: []})
def opt_some(v): return EnumV('Option', 1, {1: [v]})
def res_ok(v): return EnumV('Result', 0, {0: [v]})
def res_err(v): return EnumV('Result', 1, {1: [v]})
def is_variant(M, e, k, label='variant'):
    """True iff enum value e has variant index k on this path (forks if symbolic)"""
    if isinstance(e.discr, int): return e.discr == k
    return M.concrete_bool(e.discr == bv(k, e.discr.size()), label)
def payload(e, k): return e.payloads[k]
def deref(M, v):
    while isinstance(v, Ref): v = M.load(v)
    return v
def BV64(n): return bv(n, 64)
def tobv64(x): return BV64(x) if isinstance(x, int) else x


# ----------------------------------------------------------------------------- iterators
class It:
    pass


class SeqIt(It):
    """slice::Iter / IterMut over a sequence reachable through `ref` (VecV/list) or an immutable ValSlice"""
    def __init__(self, src, by_ref=True):
        self.src, self.i, self.by_ref = src, 0, by_ref
        self.hi = None            # exclusive upper bound for double-ended use (None = len)
    def _seq(self, M):
        return M.load(self.src) if isinstance(self.src, Ref) else self.src
    def remaining(self, M):
        s = self._seq(M)
        n = M.seq_len(s)
        return n
    def elem(self, M, i):
        s = self._seq(M)
        if isinstance(self.src, Ref) and not isinstance(s, ValSlice):
            return Ref(self.src.cell, self.src.path + (('e', i),))
        return Ref(Cell(s.elems[i] if isinstance(s, (ValSlice, VecV)) else s[i]))
    def next(self, M):
        s = self._seq(M)
        n = M.seq_len(s) if self.hi is None else BV64(self.hi)
        cap = len(s.elems) if isinstance(s, (VecV, ValSlice)) else len(s)
        if self.i >= cap:
            if not z3.is_bv_value(z3.simplify(n)) and M.check(z3.UGT(n, BV64(cap))): raise Inconclusive('sequence longer than model capacity')
            return None
        if not M.concrete_bool(z3.ULT(BV64(self.i), n), 'iter.next'): return None
        r = self.elem(M, self.i); self.i += 1
        return r
    def next_back(self, M):
        s = self._seq(M)
        if self.hi is None: self.hi = M.concrete(M.seq_len(s), 'iter.len')
        if self.hi <= self.i: return None
        self.hi -= 1
        return self.elem(M, self.hi)


class IntoIt(It):
    def __init__(self, elems): self.elems, self.i = list(elems), 0
    def next(self, M):
        if self.i >= len(self.elems): return None
        v = self.elems[self.i]; self.i += 1; return v


class LazyIntoIt(It):
    """vec::IntoIter over a Vec whose length is still symbolic: the length is concretised (forking) only when elements are pulled one by one"""
    def __init__(self, vec): self.vec, self.inner = vec, None
    def next(self, M):
        if self.inner is None:
            n = M.concrete(self.vec.len, 'into_iter.len'); self.inner = IntoIt(self.vec.elems[:n])
        return self.inner.next(M)


PURE_FN = re.compile(r'^<.+ as (Into<.+>|From<.+>|ToOwned|ToString|Clone)>::(into|from|to_owned|to_string|clone)$')


def is_pure_fn(f):
    return isinstance(f, FnItem) and PURE_FN.match(f.name) is not None


class MapIt(It):
    def __init__(self, inner, f): self.inner, self.f = inner, f
    def next(self, M):
        x = self.inner.next(M)
        if x is None: return None
        return M.call_value(self.f, [x])


class FilterIt(It):
    def __init__(self, inner, f): self.inner, self.f = inner, f
    def next(self, M):
        while True:
            x = self.inner.next(M)
            if x is None: return None
            keep = M.call_value(self.f, [Ref(Cell(x))])
            if M.concrete_bool(keep, 'filter'): return x


class MapWhileIt(It):
    """map_while / filter_map / take_while / skip_while: closure-driven adaptors"""
    def __init__(self, inner, f, mode): self.inner, self.f, self.mode, self.done, self.skipping = inner, f, mode, False, True
    def next(self, M):
        while not self.done:
            x = self.inner.next(M)
            if x is None: return None
            if self.mode in ('map_while', 'filter_map'):
                o = M.call_value(self.f, [x])
                if is_variant(M, o, 1, self.mode): return payload(o, 1)[0]
                if self.mode == 'map_while': self.done = True; return None
                continue
            keep = M.concrete_bool(M.call_value(self.f, [Ref(Cell(x))]), self.mode)
            if self.mode == 'take_while':
                if keep: return x
                self.done = True; return None
            if self.skipping and keep: continue       # skip_while
            self.skipping = False; return x
        return None


class ChainIt(It):
    def __init__(self, a, b): self.a, self.b = a, b
    def next(self, M):
        if self.a is not None:
            x = self.a.next(M)
            if x is not None: return x
            self.a = None
        if self.b is not None:
            x = self.b.next(M)
            if x is not None: return x
            self.b = None
        return None


class OnceIt(It):
    def __init__(self, v): self.v, self.done = v, False
    def next(self, M):
        if self.done: return None
        self.done = True; return self.v


class EnumerateIt(It):
    def __init__(self, inner): self.inner, self.n = inner, 0
    def next(self, M):
        x = self.inner.next(M)
        if x is None: return None
        r = [BV64(self.n), x]; self.n += 1; return r


class TakeIt(It):
    """take(n) / skip(n) / step over a prefix: counts are concretised on this path"""
    def __init__(self, inner, n, mode): self.inner, self.n, self.mode, self.i = inner, n, mode, 0
    def next(self, M):
        if self.mode == 'take':
            if self.i >= self.n: return None
            self.i += 1; return self.inner.next(M)
        while self.i < self.n:
            self.i += 1
            if self.inner.next(M) is None: return None
        return self.inner.next(M)


class ZipIt(It):
    def __init__(self, a, b): self.a, self.b = a, b
    def next(self, M):
        x = it_next(M, self.a)
        if x is None: return None
        y = it_next(M, self.b)
        if y is None: return None
        return [x, y]


class CountIt(It):
    """RangeFrom { start }"""
    def __init__(self, start): self.cur = start
    def next(self, M):
        v = self.cur; self.cur = z3.simplify(v + 1); return v


class RevIt(It):
    def __init__(self, items): self.items, self.i = list(reversed(items)), 0
    def next(self, M):
        if self.i >= len(self.items): return None
        v = self.items[self.i]; self.i += 1; return v


class ClonedIt(It):
    def __init__(self, inner): self.inner = inner
    def next(self, M):
        x = self.inner.next(M)
        if x is None: return None
        return deep_clone(deref(M, x))


class RangeIt(It):
    """only used when Range<u32/usize> is turned into an iterator object explicitly (Range itself stays a [start,end] list)"""
    pass


class SplitStrIt(It):
    """str::split(&str pattern): leftmost, non-overlapping matches; yields the pieces between them"""
    def __init__(self, s, pat, terminator=False): self.bytes, self.pat, self.cur, self.done, self.terminator = list(s.elems), list(pat.elems), 0, False, terminator
    def match_at(self, p):
        return z3.And([self.bytes[p + t] == self.pat[t] for t in range(len(self.pat))]) if self.pat else z3.BoolVal(True)
    def next(self, M):
        if self.done: return None
        n, m = len(self.bytes), len(self.pat)
        if m == 0: raise Inconclusive('split with empty pattern')
        poss = list(range(self.cur, n - m + 1))
        conds, prev_none = [], []
        for p in poss:
            conds.append(z3.And(prev_none + [self.match_at(p)])); prev_none.append(z3.Not(self.match_at(p)))
        conds.append(z3.And(prev_none) if prev_none else z3.BoolVal(True))
        k = M.choose(conds, 'split')
        if k == len(poss):
            self.done = True
            if self.terminator and self.cur == n: return None      # split_terminator: an empty last piece is not yielded
            return ValSlice(self.bytes[self.cur:], is_str=True)
        p = poss[k]
        piece = ValSlice(self.bytes[self.cur:p], is_str=True)
        self.cur = p + m
        return piece


def to_iter(M, v):
    if isinstance(v, It): return v
    if isinstance(v, Ref):
        t = M.load(v)
        if isinstance(t, It): return t
        return SeqIt(v)
    if isinstance(v, VecV):
        if z3.is_bv_value(z3.simplify(tobv64(v.len))): return IntoIt(v.elems[:M.concrete(v.len)])
        return LazyIntoIt(v)
    if isinstance(v, list) and len(v) == 2 and z3.is_bv(v[0]) and z3.is_bv(v[1]): return v     # Range
    if isinstance(v, list) and len(v) == 1 and z3.is_bv(v[0]): return CountIt(v[0])             # RangeFrom
    if isinstance(v, list): return IntoIt(v)
    if isinstance(v, ValSlice): return SeqIt(v)
    if isinstance(v, EnumV) and v.enum == 'Option':
        return IntoIt(payload(v, 1)) if is_variant(M, v, 1) else IntoIt([])
    raise Inconclusive('into_iter of %r' % (v,))


def it_next(M, it):
    """python-level next on an iterator value or a &mut to one. Range<uN> lists are handled in place."""
    holder = it if isinstance(it, Ref) else None
    itv = M.load(it) if holder is not None else it
    if isinstance(itv, Ref): holder, itv = itv, M.load(itv)
    if isinstance(itv, It): return itv.next(M)
    if isinstance(itv, list) and len(itv) == 2:       # Range { start, end }
        s, e = itv
        if M.concrete_bool(z3.ULT(s, e), 'range.next'):
            itv[0] = z3.simplify(s + 1); return s
        return None
    raise Inconclusive('next on %r' % (itv,))


def m_iter_next(M, a, c, fr):
    x = it_next(M, a[0])
    return opt_none() if x is None else opt_some(x)


def m_into_iter(M, a, c, fr): return to_iter(M, a[0])
def m_slice_iter(M, a, c, fr): return SeqIt(a[0] if isinstance(a[0], Ref) else a[0])
def m_iter_map(M, a, c, fr): return MapIt(to_iter(M, a[0]), a[1])
def m_iter_filter(M, a, c, fr): return FilterIt(to_iter(M, a[0]), a[1])
def m_iter_closure_adaptor(M, a, c, fr):
    mode = re.search(r'as Iterator>::(map_while|filter_map|take_while|skip_while)', c).group(1)
    return MapWhileIt(to_iter(M, a[0]), a[1], mode)
def m_iter_take_skip(M, a, c, fr):
    mode = 'take' if '>::take' in c else 'skip'
    return TakeIt(to_iter(M, a[0]), M.concrete(a[1], 'iter.' + mode), mode)
def m_iter_chain(M, a, c, fr): return ChainIt(to_iter(M, a[0]), to_iter(M, a[1]))
def m_iter_enumerate(M, a, c, fr): return EnumerateIt(to_iter(M, a[0]))
def m_iter_cloned(M, a, c, fr): return ClonedIt(to_iter(M, a[0]))
def m_once(M, a, c, fr): return OnceIt(a[0])
def m_iter_zip(M, a, c, fr): return ZipIt(to_iter(M, a[0]), to_iter(M, a[1]))
def m_iter_rev(M, a, c, fr): return RevIt(drain(M, to_iter(M, a[0])))


def drain(M, it):
    out = []
    while True:
        x = it_next(M, it)
        if x is None: return out
        out.append(x)


def m_collect_vec(M, a, c, fr):
    it = to_iter(M, a[0])
    # a chain of pure element-wise maps over a whole Vec keeps the (symbolic) length: no forking
    fs, cur = [], it
    while isinstance(cur, MapIt) and is_pure_fn(cur.f): fs.append(cur.f); cur = cur.inner
    if isinstance(cur, LazyIntoIt) and cur.inner is None:
        out = []
        for e in cur.vec.elems:
            for f in reversed(fs): e = M.call_value(f, [e])
            out.append(e)
        return VecV(cur.vec.len, out)
    xs = drain(M, it)
    return VecV(BV64(len(xs)), xs)


def closure_is_pure(M, f):
    if not isinstance(f, ClosureV): return False
    try: fn = M.closure_fn(f.span, 2)
    except Inconclusive: return False
    for ls in fn.blocks.values():
        for l in ls:
            if re.match(r'^\(\*', l): return False
            if '-> [return' in l and not re.search(r'core::num::<impl u8>::is_ascii_\w+\(', l): return False
    return True


def m_iter_all(M, a, c, fr):
    it, f = a[0], a[1]
    itv = deref(M, it)
    if isinstance(itv, SeqIt) and closure_is_pure(M, f):
        conj = []
        while True:
            x = itv.next(M)
            if x is None: break
            conj.append(M.summarise(lambda x=x: M.call_value(f, [x])))
        return z3.simplify(z3.And(conj)) if conj else z3.BoolVal(True)
    while True:
        x = it_next(M, it)
        if x is None: return z3.BoolVal(True)
        if not M.concrete_bool(M.call_value(f, [x]), 'all'): return z3.BoolVal(False)


def m_iter_any(M, a, c, fr):
    while True:
        x = it_next(M, a[0])
        if x is None: return z3.BoolVal(False)
        if M.concrete_bool(M.call_value(a[1], [x]), 'any'): return z3.BoolVal(True)


def m_iter_position(M, a, c, fr):
    i = 0
    while True:
        x = it_next(M, a[0])
        if x is None: return opt_none()
        if M.concrete_bool(M.call_value(a[1], [x]), 'position'): return opt_some(BV64(i))
        i += 1


def m_iter_rposition(M, a, c, fr):
    xs = drain(M, to_iter(M, a[0]))
    for i in range(len(xs) - 1, -1, -1):
        if M.concrete_bool(M.call_value(a[1], [xs[i]]), 'rposition'): return opt_some(BV64(i))
    return opt_none()


def m_vec_extend(M, a, c, fr):
    v = M.load(a[0])
    if not isinstance(v, VecV): raise Inconclusive('Vec::extend on %r' % (v,))
    n = M.concrete(v.len, 'extend.len'); del v.elems[n:]
    xs = drain(M, to_iter(M, a[1]))
    v.elems.extend(xs); v.len = BV64(n + len(xs))
    return []


def m_iter_find(M, a, c, fr):
    while True:
        x = it_next(M, a[0])
        if x is None: return opt_none()
        if M.concrete_bool(M.call_value(a[1], [Ref(Cell(x))]), 'find'): return opt_some(x)


def m_iter_last(M, a, c, fr):
    last = None
    it = to_iter(M, a[0])
    while True:
        x = it_next(M, it)
        if x is None: break
        last = x
    return opt_none() if last is None else opt_some(last)


def m_iter_count(M, a, c, fr):
    return BV64(len(drain(M, to_iter(M, a[0]))))


def m_iter_fold(M, a, c, fr):
    acc = a[1]
    for x in drain(M, to_iter(M, a[0])): acc = M.call_value(a[2], [acc, x])
    return acc


def m_iter_for_each(M, a, c, fr):
    for x in drain(M, to_iter(M, a[0])): M.call_value(a[1], [x])
    return []


# ----------------------------------------------------------------------------- Vec / slices
def m_vec_new(M, a, c, fr): return VecV(BV64(0), [])
def m_vec_len(M, a, c, fr): return M.seq_len(a[0])
def m_vec_is_empty(M, a, c, fr): return M.seq_len(a[0]) == BV64(0)


def m_vec_push(M, a, c, fr):
    v = M.load(a[0])
    if isinstance(v, ArrVec):
        M.store(a[0], ArrVec(v.len + 1, z3.Store(v.data, v.len, a[1]))); return []
    k = M.concrete(v.len, 'push.len')
    del v.elems[k:]
    v.elems.append(a[1]); v.len = BV64(k + 1)
    return []


def m_ident(M, a, c, fr): return a[0]


def m_index(M, a, c, fr):
    v = M.load(a[0]); idx = a[1]
    if isinstance(idx, list): raise Inconclusive('range index')
    n = M.seq_len(v)
    if not M.concrete_bool(z3.ULT(idx, n), 'index.bounds'): raise Panic('index out of bounds')
    if isinstance(v, ArrVec): return Ref(Cell(z3.Select(v.data, idx)))
    k = M.concrete(idx, 'index')
    return Ref(a[0].cell, a[0].path + (('e', k),))


def m_index_range(M, a, c, fr):
    """v[a..b], v[a..], v[..b], v[..]: an immutable view of the selected elements (concrete bounds on this path)"""
    v = M.load(a[0]); r = a[1]
    kind = re.search(r'Index(?:Mut)?<(?:std::ops::|core::ops::)?(RangeFull|RangeFrom|RangeToInclusive|RangeTo|RangeInclusive|Range)\b', c).group(1)
    if 'index_mut' in c: raise Inconclusive('mutable range index')
    xs = seq_elems(M, v); n = len(xs)
    def cv(x): return M.concrete(x, 'range.bound')
    if kind == 'RangeFull': lo, hi = 0, n
    elif kind == 'RangeFrom': lo, hi = cv(r[0]), n
    elif kind == 'RangeTo': lo, hi = 0, cv(r[0])
    elif kind == 'RangeToInclusive': lo, hi = 0, cv(r[0]) + 1
    elif kind == 'RangeInclusive': lo, hi = cv(r[0]), cv(r[1]) + 1
    else: lo, hi = cv(r[0]), cv(r[1])
    if lo > hi or hi > n: raise Panic('range index out of bounds')
    return Ref(Cell(ValSlice(xs[lo:hi], getattr(v, 'is_str', False))))


def m_slice_get(M, a, c, fr):
    v = M.load(a[0]) if isinstance(a[0], Ref) else a[0]
    idx = a[1]
    n = M.seq_len(v)
    if not M.concrete_bool(z3.ULT(idx, n), 'get.bounds'): return opt_none()
    if isinstance(v, ArrVec): return opt_some(Ref(Cell(z3.Select(v.data, idx))))
    k = M.concrete(idx, 'get.index')
    if isinstance(a[0], Ref) and not isinstance(v, ValSlice): return opt_some(Ref(a[0].cell, a[0].path + (('e', k),)))
    return opt_some(Ref(Cell(v.elems[k])))


def seq_elems(M, v):
    """python list of the elements of a sequence value with concrete length on this path"""
    if isinstance(v, ValSlice): return list(v.elems)
    if isinstance(v, VecV): return v.elems[:M.concrete(v.len, 'seq.len')]
    if isinstance(v, list): return v
    raise Inconclusive('elements of %r' % (v,))


def m_split_first(M, a, c, fr):
    v = deref(M, a[0]); xs = seq_elems(M, v)
    if not xs: return opt_none()
    return opt_some([Ref(Cell(xs[0])), ValSlice(xs[1:], getattr(v, 'is_str', False))])


def m_split_last(M, a, c, fr):
    v = deref(M, a[0]); xs = seq_elems(M, v)
    if not xs: return opt_none()
    return opt_some([Ref(Cell(xs[-1])), ValSlice(xs[:-1])])


def m_slice_first(M, a, c, fr):
    xs = seq_elems(M, deref(M, a[0]))
    return opt_some(Ref(Cell(xs[0]))) if xs else opt_none()


def m_slice_last(M, a, c, fr):
    xs = seq_elems(M, deref(M, a[0]))
    return opt_some(Ref(Cell(xs[-1]))) if xs else opt_none()


def m_vec_dedup_by(M, a, c, fr):
    """Vec::dedup_by(same_bucket): std's documented behaviour - walk left to right, call same_bucket(&mut cur, &mut last_kept) and drop
    `cur` when it returns true (the closure sees the elements in the opposite order from the slice order).  Concrete length on this path."""
    v = M.load(a[0])
    if not isinstance(v, VecV) or not isinstance(a[0], Ref): raise Inconclusive('dedup_by of %r' % (v,))
    n = M.concrete(v.len, 'dedup_by.len')
    if n < 2: return []
    w = 1                                                   # elems[:w] are kept
    for r in range(1, n):
        cur = Ref(a[0].cell, a[0].path + (('e', r),)); last = Ref(a[0].cell, a[0].path + (('e', w - 1),))
        same = M.concrete_bool(M.call_value(a[1], [cur, last]), 'dedup_by')
        v = M.load(a[0])
        if not same:
            v.elems[w] = v.elems[r]; w += 1
    v = M.load(a[0]); del v.elems[w:]; v.len = BV64(w)
    return []


def m_slice_reverse(M, a, c, fr):
    v = M.load(a[0])
    if not isinstance(v, VecV): raise Inconclusive('reverse of %r' % (v,))
    n = M.concrete(v.len, 'reverse.len')
    v.elems[:n] = list(reversed(v.elems[:n]))
    return []


def m_join(M, a, c, fr):
    xs = seq_elems(M, deref(M, a[0])); sep = deref(M, a[1])
    out = []
    for i, x in enumerate(xs):
        x = deref(M, x)
        if isinstance(x, Tok) or isinstance(sep, Tok):
            return [Tok('join'), [deref(M, y) for y in xs], sep]
        if i: out += list(sep.elems)
        out += list(x.elems)
    return ValSlice(out, is_str=True)


# ----------------------------------------------------------------------------- Option / Result
def m_opt_map(M, a, c, fr):
    o = a[0]
    if not isinstance(o.discr, int) and is_pure_fn(a[1]) and 1 in o.payloads:
        return EnumV('Option', o.discr, {0: [], 1: [M.call_value(a[1], [o.payloads[1][0]])]})
    if is_variant(M, o, 1, 'Option::map'): return opt_some(M.call_value(a[1], [payload(o, 1)[0]]))
    return opt_none()


def m_opt_filter(M, a, c, fr):
    o = a[0]
    if not is_variant(M, o, 1, 'Option::filter'): return opt_none()
    v = payload(o, 1)[0]
    return opt_some(v) if M.concrete_bool(M.call_value(a[1], [Ref(Cell(v))]), 'Option::filter') else opt_none()


def m_opt_and_then(M, a, c, fr):
    o = a[0]
    return M.call_value(a[1], [payload(o, 1)[0]]) if is_variant(M, o, 1, 'Option::and_then') else opt_none()


def m_opt_ok_or(M, a, c, fr):
    o = a[0]
    return res_ok(payload(o, 1)[0]) if is_variant(M, o, 1, 'Option::ok_or') else res_err(a[1])


def m_opt_copied(M, a, c, fr):
    o = a[0]
    return opt_some(clone_val(deref(M, payload(o, 1)[0]))) if is_variant(M, o, 1, 'Option::copied') else opt_none()


def m_opt_map_or(M, a, c, fr):
    o = a[0]
    if is_variant(M, o, 1, 'Option::map_or'): return M.call_value(a[2], [payload(o, 1)[0]])
    return a[1]


def m_opt_unwrap_or(M, a, c, fr):
    o = a[0]
    return payload(o, 1)[0] if is_variant(M, o, 1, 'Option::unwrap_or') else a[1]


def m_opt_cloned(M, a, c, fr):
    o = a[0]
    return opt_some(deep_clone(deref(M, payload(o, 1)[0]))) if is_variant(M, o, 1, 'Option::cloned') else opt_none()


def m_opt_is_some(M, a, c, fr):
    o = deref(M, a[0])
    return z3.BoolVal(o.discr == 1) if isinstance(o.discr, int) else o.discr == bv(1, o.discr.size())


def m_opt_is_none(M, a, c, fr): return z3.Not(m_opt_is_some(M, a, c, fr))


def m_opt_take(M, a, c, fr):
    o = M.load(a[0]); M.store(a[0], opt_none()); return o


def m_opt_get_or_insert_with(M, a, c, fr):
    o = M.load(a[0])
    if not is_variant(M, o, 1, 'Option::get_or_insert_with'):
        M.store(a[0], opt_some(M.call_value(a[1], [])))
    return Ref(a[0].cell, a[0].path + (('v', 1), 0))


def m_opt_unwrap_or_default(M, a, c, fr):
    o = a[0]
    if is_variant(M, o, 1, 'Option::unwrap_or_default'): return payload(o, 1)[0]
    raise Inconclusive('unwrap_or_default needs the Default value of ' + c)


def m_opt_or(M, a, c, fr):
    return a[0] if is_variant(M, a[0], 1, 'Option::or') else a[1]


def m_opt_unwrap_or_else(M, a, c, fr):
    o = a[0]
    return payload(o, 1)[0] if is_variant(M, o, 1, 'Option::unwrap_or_else') else M.call_value(a[1], [])


def m_opt_map_or_else(M, a, c, fr):
    o = a[0]
    return M.call_value(a[2], [payload(o, 1)[0]]) if is_variant(M, o, 1, 'Option::map_or_else') else M.call_value(a[1], [])


def m_opt_eq(M, a, c, fr):
    x, y = deref(M, a[0]), deref(M, a[1])
    xs, ys = is_variant(M, x, 1, 'Option::eq.l'), is_variant(M, y, 1, 'Option::eq.r')
    if xs != ys: return z3.BoolVal(False)
    if not xs: return z3.BoolVal(True)
    return M.val_eq(payload(x, 1)[0], payload(y, 1)[0])


def m_opt_as_ref(M, a, c, fr):
    o = M.load(a[0])
    if is_variant(M, o, 1, 'Option::as_ref'): return opt_some(Ref(a[0].cell, a[0].path + (('v', 1), 0)))
    return opt_none()


def m_opt_expect(M, a, c, fr):
    o = a[0]
    if is_variant(M, o, 1, 'Option::expect'): return payload(o, 1)[0]
    raise Panic('Option::expect/unwrap on None')


def m_res_expect(M, a, c, fr):
    r = a[0]
    if is_variant(M, r, 0, 'Result::expect'): return payload(r, 0)[0]
    raise Panic('Result::expect/unwrap on Err')


def m_res_unwrap_or_else(M, a, c, fr):
    r = a[0]
    if is_variant(M, r, 0, 'Result::unwrap_or_else'): return payload(r, 0)[0]
    return M.call_value(a[1], [payload(r, 1)[0]])


def m_res_map_err(M, a, c, fr):
    r = a[0]
    if is_variant(M, r, 0, 'Result::map_err'): return r
    return res_err(M.call_value(a[1], [payload(r, 1)[0]]))


def m_res_map(M, a, c, fr):
    r = a[0]
    if is_variant(M, r, 0, 'Result::map'): return res_ok(M.call_value(a[1], [payload(r, 0)[0]]))
    return r


def m_res_ok(M, a, c, fr):
    r = a[0]
    return opt_some(payload(r, 0)[0]) if is_variant(M, r, 0, 'Result::ok') else opt_none()


def m_res_err(M, a, c, fr):
    r = a[0]
    return opt_some(payload(r, 1)[0]) if is_variant(M, r, 1, 'Result::err') else opt_none()


def m_res_is(M, a, c, fr):
    r = deref(M, a[0]); return z3.BoolVal(is_variant(M, r, 0, 'Result::is_ok') == c.endswith('is_ok'))


def m_try_branch(M, a, c, fr):
    r = a[0]
    if r.enum == 'Option':
        if is_variant(M, r, 1, 'Try::branch'): return EnumV('ControlFlow', 0, {0: [payload(r, 1)[0]]})
        return EnumV('ControlFlow', 1, {1: [opt_none()]})
    if is_variant(M, r, 0, 'Try::branch'): return EnumV('ControlFlow', 0, {0: [payload(r, 0)[0]]})
    return EnumV('ControlFlow', 1, {1: [res_err(payload(r, 1)[0])]})


def m_from_residual(M, a, c, fr):
    r = a[0]
    if r.enum == 'Option': return opt_none()
    e = payload(r, 1)[0]
    m = re.search(r'FromResidual<Result<Infallible, (.+)>>>::from_residual', c)
    return res_err(e)


# ----------------------------------------------------------------------------- str / bytes
def sbytes(M, v):
    v = deref(M, v)
    if isinstance(v, ValSlice): return list(v.elems)
    raise Inconclusive('string bytes of %r' % (v,))


def m_str_is_ascii(M, a, c, fr):
    bs = sbytes(M, a[0])
    return z3.And([z3.ULT(b, bv(128, 8)) for b in bs]) if bs else z3.BoolVal(True)


def m_trim_start_matches(M, a, c, fr):
    bs, pat = sbytes(M, a[0]), sbytes(M, a[1])
    m = len(pat)
    if m == 0: raise Inconclusive('trim_start_matches with empty pattern')
    kmax = len(bs) // m
    def pref(k): return z3.And([bs[j * m + t] == pat[t] for j in range(k) for t in range(m)]) if k else z3.BoolVal(True)
    conds = []
    for k in range(kmax + 1):
        cnd = pref(k)
        if k < kmax: cnd = z3.And(cnd, z3.Not(z3.And([bs[k * m + t] == pat[t] for t in range(m)])))
        conds.append(cnd)
    k = M.choose(conds, 'trim_start_matches')
    return ValSlice(bs[k * m:], is_str=True)


def m_strip_prefix(M, a, c, fr):
    x = deref(M, a[0])
    if isinstance(x, Tok):       # opaque string: whether it has the prefix is an uninterpreted predicate; the remainder is another opaque string
        if M.concrete_bool(z3.Bool('starts_with(%s,%r)' % (x.name, deref(M, a[1]))), 'strip_prefix'): return opt_some(Tok('strip_prefix(%s)' % x.name))
        return opt_none()
    bs, pat = sbytes(M, a[0]), sbytes(M, a[1])
    if len(bs) < len(pat): return opt_none()
    hit = z3.And([bs[t] == pat[t] for t in range(len(pat))]) if pat else z3.BoolVal(True)
    if M.concrete_bool(hit, 'strip_prefix'): return opt_some(ValSlice(bs[len(pat):], is_str=True))
    return opt_none()


def m_starts_with(M, a, c, fr):
    x = deref(M, a[0])
    if isinstance(x, Tok):       # opaque string: the answer is an uninterpreted predicate of (string, pattern)
        return z3.Bool('starts_with(%s,%r)' % (x.name, deref(M, a[1])))
    bs, pat = sbytes(M, a[0]), sbytes(M, a[1])
    if len(bs) < len(pat): return z3.BoolVal(False)
    return z3.And([bs[t] == pat[t] for t in range(len(pat))]) if pat else z3.BoolVal(True)


def m_str_split(M, a, c, fr): return SplitStrIt(deref(M, a[0]), deref(M, a[1]), terminator='split_terminator' in c)
def m_as_bytes(M, a, c, fr):
    v = deref(M, a[0]); return ValSlice(v.elems)
def m_str_len(M, a, c, fr):
    v = deref(M, a[0])
    if isinstance(v, Tok): return z3.BitVec('len(%s)' % v.name, 64)
    return BV64(len(sbytes(M, a[0])))
def m_str_is_empty(M, a, c, fr):
    v = deref(M, a[0])
    if isinstance(v, Tok): return z3.BitVec('len(%s)' % v.name, 64) == 0      # opaque string: its length is a free value
    return z3.BoolVal(len(sbytes(M, a[0])) == 0)


def m_str_eq(M, a, c, fr):
    x, y = deref(M, a[0]), deref(M, a[1])
    # an opaque string against a literal: may or may not be equal (one free boolean per pair); opaque against opaque: distinct tokens are distinct strings (stated assumption)
    if isinstance(x, Tok) != isinstance(y, Tok):
        t, l = (x, y) if isinstance(x, Tok) else (y, x)
        if isinstance(l, ValSlice) and all(z3.is_bv_value(b) for b in l.elems): return z3.Bool('str_eq(%s,%r)' % (t.name, bytes(b.as_long() for b in l.elems)))
    return M.val_eq(x, y)


def u8_pred(lo, hi):
    def f(M, a, c, fr):
        b = deref(M, a[0])
        return z3.And(z3.UGE(b, bv(lo, b.size())), z3.ULE(b, bv(hi, b.size())))
    return f


def m_u8_alpha(M, a, c, fr):
    b = deref(M, a[0]); w = b.size()
    return z3.Or(z3.And(z3.UGE(b, bv(65, w)), z3.ULE(b, bv(90, w))), z3.And(z3.UGE(b, bv(97, w)), z3.ULE(b, bv(122, w))))


def m_u8_alnum(M, a, c, fr):
    b = deref(M, a[0]); w = b.size()
    return z3.Or(m_u8_alpha(M, a, c, fr), z3.And(z3.UGE(b, bv(48, w)), z3.ULE(b, bv(57, w))))


def m_str_to_owned(M, a, c, fr): return deref(M, a[0])


# ----------------------------------------------------------------------------- misc
def m_clone(M, a, c, fr): return deep_clone(deref(M, a[0]))
def m_replace(M, a, c, fr):
    old = M.load(a[0]); M.store(a[0], a[1]); return old
def m_take(M, a, c, fr):
    old = M.load(a[0])
    if isinstance(old, VecV): M.store(a[0], VecV(BV64(0), []))
    elif isinstance(old, EnumV) and old.enum == 'Option': M.store(a[0], opt_none())
    else: raise Inconclusive('mem::take of %r' % (old,))
    return old
def m_unit(M, a, c, fr): return []
def m_none(M, a, c, fr): return None
def m_panic(M, a, c, fr): raise Panic('explicit panic: ' + c[:60])
def m_into_same(M, a, c, fr): return a[0]


def m_phantom_default(M, a, c, fr): return None


def m_int_default(M, a, c, fr):
    """<uN/iN/usize/isize/bool as Default>::default(): zero / false (std's documented value)."""
    import re as _re
    m = _re.search(r'<(u8|u16|u32|u64|u128|usize|i8|i16|i32|i64|i128|isize|bool) as Default>', c if isinstance(c, str) else str(c))
    t = m.group(1)
    if t == 'bool': return z3.BoolVal(False)
    w = 64 if t in ('usize', 'isize') else int(t[1:])
    return bv(0, w)


def m_saturating_add(M, a, c, fr):
    x, y = a; s = x + y
    return z3.If(z3.ULT(s, x), bv(2 ** x.size() - 1, x.size()), s)


# ----------------------------------------------------------------------------- BTreeMap with concrete shape (bounded histories): list of (key, value object)
class DictMap:
    def __init__(self): self.entries = []
    def find(self, M, key, label='map.lookup'):
        for i, (k, v) in enumerate(self.entries):
            if M.concrete_bool(M.val_eq(k, key), label): return i
        return None
    def ordered(self):
        ks = [k for k, _ in self.entries]
        if all(z3.is_bv_value(z3.simplify(k)) if z3.is_expr(k) else False for k in ks): return sorted(self.entries, key=lambda e: z3.simplify(e[0]).as_long())
        return list(self.entries)


def mapkey(k):
    """key as stored: newtype-like keys ([scalar, None]) are unwrapped, everything else kept"""
    try: return keyval(k)
    except Inconclusive: return k


# ----------------------------------------------------------------------------- BTreeMap as z3 arrays
def keyval(k):
    """map key -> z3 term: newtype-like keys ([scalar, None]) are unwrapped"""
    while isinstance(k, list):
        ks = [x for x in k if x is not None]
        if len(ks) != 1: raise Inconclusive('composite map key %r' % (k,))
        k = ks[0]
    return k


def m_map_new(M, a, c, fr):
    if M.aux.get('dictmaps'): return DictMap()
    mk = M.aux.get('new_map')
    if mk is not None:
        r = mk(M, c)
        if r is not None: return r
    if re.search(r'BTreeMap::<u32, u32>', c) or 'BTreeMap<u32, u32>' in c:
        return MapV(z3.K(z3.BitVecSort(32), z3.BoolVal(False)), z3.K(z3.BitVecSort(32), bv(0, 32)))
    raise Inconclusive('BTreeMap::new for unknown key/value sorts: ' + c)


def m_map_entry(M, a, c, fr):
    m = M.load(a[0])
    if isinstance(m, DictMap):
        key = mapkey(a[1]); i = m.find(M, key)
        k = 1 if i is not None else 0
        return EnumV('Entry', k, {k: [[a[0], key, i]]})
    key = keyval(a[1])
    occ = M.concrete_bool(z3.Select(m.present, key), 'BTreeMap::entry')
    k = 1 if occ else 0
    return EnumV('Entry', k, {k: [[a[0], key]]})


def m_vacant_insert(M, a, c, fr):
    mref, key = a[0][0], a[0][1]; m = M.load(mref)
    if isinstance(m, DictMap):
        m.entries.append([key, a[1]]); return Ref(mref.cell, mref.path) if False else Ref(Cell(a[1]))
    M.store(mref, MapV(z3.Store(m.present, key, True), z3.Store(m.val, key, keyval(a[1])), m.extra))
    return Ref(Cell(a[1]))


def m_occupied_get(M, a, c, fr):
    ent = deref(M, a[0]); mref, key = ent[0], ent[1]; m = M.load(mref)
    if isinstance(m, DictMap): return Ref(Cell(m.entries[ent[2]][1]))
    return Ref(Cell(z3.Select(m.val, key)))


def m_map_get(M, a, c, fr):
    m = M.load(a[0])
    if isinstance(m, DictMap):
        i = m.find(M, mapkey(deref(M, a[1])))
        return opt_none() if i is None else opt_some(Ref(Cell(m.entries[i][1])))
    key = keyval(deref(M, a[1]))
    if M.concrete_bool(z3.Select(m.present, key), 'BTreeMap::get'):
        v = z3.Select(m.val, key)
        if m.extra is not None and 'unwrap_val' in m.extra: v = m.extra['unwrap_val'](v)
        return opt_some(Ref(Cell(v)))
    return opt_none()


def m_map_insert(M, a, c, fr):
    m = M.load(a[0])
    if isinstance(m, DictMap):
        key = mapkey(a[1]); i = m.find(M, key)
        M.aux.setdefault('map_inserts', []).append((key, i is not None))
        if i is None:
            m.entries.append([key, a[2]]); return opt_none()
        old = m.entries[i][1]; m.entries[i][1] = a[2]; return opt_some(old)
    key = keyval(a[1])
    val = a[2]
    if m.extra is not None and 'wrap_val' in m.extra: val = m.extra['wrap_val'](M, val)
    was = M.concrete_bool(z3.Select(m.present, key), 'BTreeMap::insert')
    old = z3.Select(m.val, key)
    M.store(a[0], MapV(z3.Store(m.present, key, True), z3.Store(m.val, key, keyval(val)), m.extra))
    M.aux.setdefault('map_inserts', []).append((key, was))
    return opt_some(old) if was else opt_none()


# ----------------------------------------------------------------------------- TypeId (opaque 128-bit identity), comparison traits
def ordering(lt, eq):
    return EnumV('Ordering', z3.If(lt, bv(-1 & 0xFF, 8), z3.If(eq, bv(0, 8), bv(1, 8))), {0: [], 1: [], 2: []})


def tid_of(name, sort=None):
    # a TypeId is an opaque constant named after the type; harnesses that model TypeIds with an uninterpreted sort say so in aux['tid_sort']
    if sort is not None: return z3.Const('TypeId::of<%s>' % name, sort)
    return z3.BitVec('TypeId::of<%s>' % name, 128)


def m_typeid_of(M, a, c, fr):
    m = re.fullmatch(r'TypeId::of::<(.*)>', c)
    M.aux.setdefault('typeid_of_log', []).append(m.group(1))
    t = tid_of(m.group(1), M.aux.get('tid_sort'))
    if M.aux.get('tid_distinct'):
        # harness assumption: differently named types are different types (type parameters are pairwise distinct, none is PhantomData)
        seen = M.aux.setdefault('tid_seen', {})
        if m.group(1) not in seen:
            for o in seen.values(): M.add(t != o)
            seen[m.group(1)] = t
    return t


def m_typeid_eq(M, a, c, fr): return deref(M, a[0]) == deref(M, a[1])
def opaque_lt(M, x, y):
    """strict total order on an uninterpreted sort: an injective rank into the integers, instantiated at the compared pair"""
    rank = z3.Function('rank_' + x.sort().name(), x.sort(), z3.IntSort())
    M.add((rank(x) == rank(y)) == (x == y))
    return rank(x) < rank(y)


def m_typeid_cmp(M, a, c, fr):
    x, y = deref(M, a[0]), deref(M, a[1])
    if not z3.is_bv(x): return ordering(opaque_lt(M, x, y), x == y)
    return ordering(z3.ULT(x, y), x == y)


def m_opaque_cmp(M, a, c, fr):
    x, y = deref(M, a[0]), deref(M, a[1])
    if not (z3.is_expr(x) and z3.is_expr(y) and x.sort().kind() == z3.Z3_UNINTERPRETED_SORT): raise Inconclusive('Ord::cmp on %r' % (x,))
    return ordering(opaque_lt(M, x, y), x == y)


def m_box_new_uninit(M, a, c, fr):
    """Box<MaybeUninit<[T; N]>> of the vec![..] expansion: Box{Unique{NonNull}} -> MaybeUninit{uninit, value: ManuallyDrop{MaybeDangling{array}}}"""
    return [[Ref(Cell([None, [[None]]]))]]


def m_box_into_vec(M, a, c, fr):
    p = a[0][0][0]
    arr = M.load(p)[1][0][0]
    if not isinstance(arr, list): raise Inconclusive('box_assume_init_into_vec of %r' % (arr,))
    return VecV(BV64(len(arr)), list(arr))


def m_type_name(M, a, c, fr):
    m = re.search(r'type_name::<(.*)>$', c); return Tok('type_name<%s>' % m.group(1))


def m_str_cmp(M, a, c, fr):
    """Ord on strings: concrete against concrete bytewise; opaque strings through an injective rank per token"""
    x, y = deref(M, a[0]), deref(M, a[1])
    if isinstance(x, Tok) and isinstance(y, Tok):
        if x.name == y.name: return ordering(z3.BoolVal(False), z3.BoolVal(True))
        rx, ry = z3.Int('strrank(%s)' % x.name), z3.Int('strrank(%s)' % y.name); M.add(rx != ry)
        return ordering(rx < ry, z3.BoolVal(False))
    if isinstance(x, ValSlice) and isinstance(y, ValSlice) and all(z3.is_bv_value(b) for b in list(x.elems) + list(y.elems)):
        bx, by = bytes(b.as_long() for b in x.elems), bytes(b.as_long() for b in y.elems)
        return ordering(z3.BoolVal(bx < by), z3.BoolVal(bx == by))
    raise Inconclusive('str::cmp of %r and %r' % (x, y))


def m_ordering_then_with(M, a, c, fr):
    o = a[0]; d = o.discr if not isinstance(o.discr, int) else bv(o.discr & 0xFF, 8)
    if M.concrete_bool(d == bv(0, 8), 'then_with'): return M.call_value(a[1], [])
    return o


def m_ordering_then(M, a, c, fr):
    o = a[0]; d = o.discr if not isinstance(o.discr, int) else bv(o.discr & 0xFF, 8)
    return a[1] if M.concrete_bool(d == bv(0, 8), 'then') else o


def m_binary_search_by(M, a, c, fr):
    """core::slice::binary_search_by, the algorithm of the pinned std (base/size halving), on a slice of concrete length"""
    xs = seq_elems(M, deref(M, a[0])); f = a[1]
    def cmp(i):
        o = M.call_value(f, [Ref(Cell(xs[i]))])
        d = o.discr if not isinstance(o.discr, int) else bv(o.discr & 0xFF, 8)
        if M.concrete_bool(d == bv(1, 8), 'bsearch.gt'): return 1
        return 0 if M.concrete_bool(d == bv(0, 8), 'bsearch.eq') else -1
    size = len(xs)
    if size == 0: return res_err(BV64(0))
    base = 0
    while size > 1:
        half = size // 2; mid = base + half
        if cmp(mid) != 1: base = mid
        size -= half
    o = cmp(base)
    if o == 0: return res_ok(BV64(base))
    return res_err(BV64(base + (1 if o == -1 else 0)))


def m_vec_insert(M, a, c, fr):
    v = M.load(a[0])
    if not isinstance(v, VecV): raise Inconclusive('Vec::insert on %r' % (v,))
    n = M.concrete(v.len, 'insert.len'); k = M.concrete(a[1], 'insert.index')
    if k > n: raise Panic('insertion index out of bounds')
    del v.elems[n:]
    v.elems.insert(k, a[2]); v.len = BV64(n + 1)
    return []
def m_typeid_hash(M, a, c, fr):
    M.aux.setdefault('hash_log', []).append(deref(M, a[0])); return []


def m_ref_eq(M, a, c, fr):
    m = re.fullmatch(r'<&(?:mut )?(.+) as PartialEq(?:<&(?:mut )?(.+)>)?>::(eq|ne)', c)
    if m is None: raise Inconclusive('reference equality ' + c)
    inner = m.group(1)
    x, y = M.load(a[0]), M.load(a[1])
    return M.call('<%s as PartialEq>::%s' % (inner, m.group(3)), [x, y], fr)


def m_from_le_bytes(M, a, c, fr):
    bs = a[0] if isinstance(a[0], list) else list(a[0].elems)
    be = 'from_be_bytes' in c
    xs = list(bs) if be else list(reversed(bs))
    return z3.Concat(*xs) if len(xs) > 1 else xs[0]


def m_to_le_bytes(M, a, c, fr):
    x = a[0]; n = x.size() // 8
    bs = [z3.Extract(8 * i + 7, 8 * i, x) for i in range(n)]
    return list(reversed(bs)) if 'to_be_bytes' in c else bs


def m_int_from(M, a, c, fr):
    """lossless integer conversions From<uN>/From<iN>/From<bool> for wider integers; TryFrom between integers"""
    m = re.fullmatch(r'<([ui](?:8|16|32|64|128|size)) as (Try)?From<([ui](?:8|16|32|64|128|size)|bool)>>::(?:try_)?from', c)
    dst, tr, src = m.group(1), m.group(2), m.group(3)
    x = a[0]; wd = BITS[dst]
    if src == 'bool': return z3.If(x, bv(1, wd), bv(0, wd))
    ws = BITS[src]; signed_s, signed_d = src[0] == 'i', dst[0] == 'i'
    if not tr:
        return z3.SignExt(wd - ws, x) if signed_s else z3.ZeroExt(wd - ws, x)
    W = max(ws, wd) + 1
    wide = z3.SignExt(W - ws, x) if signed_s else z3.ZeroExt(W - ws, x)
    lo, hi = (-(1 << (wd - 1)), (1 << (wd - 1)) - 1) if signed_d else (0, (1 << wd) - 1)
    fits = z3.And(wide >= z3.BitVecVal(lo, W), wide <= z3.BitVecVal(hi, W))
    if M.concrete_bool(fits, 'try_from.fits'): return res_ok(z3.Extract(wd - 1, 0, wide))
    return res_err(Tok('TryFromIntError'))


def m_into_via_from(M, a, c, fr):
    m = re.fullmatch(r'<(.+) as Into<(.+)>>::into', c)
    src, dst = m.group(1), m.group(2)
    if src == dst: return a[0]
    return M.call('<%s as From<%s>>::from' % (dst, src), a, fr)


def m_map_len(M, a, c, fr):
    m = deref(M, a[0])
    if isinstance(m, DictMap): return BV64(len(m.entries))
    raise Inconclusive('BTreeMap::len on an array-modelled map')


def m_map_contains(M, a, c, fr):
    m = M.load(a[0])
    if isinstance(m, DictMap): return z3.BoolVal(m.find(M, mapkey(deref(M, a[1]))) is not None)
    return z3.Select(m.present, keyval(deref(M, a[1])))


def m_map_values(M, a, c, fr):
    m = M.load(a[0])
    if isinstance(m, DictMap): return IntoIt([Ref(Cell(v)) for _, v in m.ordered()])
    raise Inconclusive('BTreeMap::values on an array-modelled map')


def m_map_keys(M, a, c, fr):
    m = M.load(a[0])
    if isinstance(m, DictMap): return IntoIt([Ref(Cell(k)) for k, _ in m.ordered()])
    raise Inconclusive('BTreeMap::keys on an array-modelled map')


def m_collect_map(M, a, c, fr):
    out = DictMap()
    for kv in drain(M, to_iter(M, a[0])):
        key = mapkey(kv[0]); i = out.find(M, key)
        if i is None: out.entries.append([key, kv[1]])
        else: out.entries[i][1] = kv[1]
    return out


def m_map_iter(M, a, c, fr):
    m = M.load(a[0])
    if isinstance(m, DictMap):
        def wrapk(k): return [k, None] if (z3.is_bv(k) and 'UntrackedSymbol' in c) else k
        return IntoIt([[Ref(Cell(wrapk(k))), Ref(Cell(v))] for k, v in m.ordered()])
    if m.extra is None or 'keys' not in m.extra: raise Inconclusive('BTreeMap::iter on a map without a concrete key set')
    out = []
    for k in sorted(m.extra['keys']):
        kb = bv(k, m.present.domain().size())
        out.append([Ref(Cell(m.extra['mk_key'](kb) if 'mk_key' in m.extra else kb)), Ref(Cell(z3.Select(m.val, kb)))])
    return IntoIt(out)


# ----------------------------------------------------------------------------- string operations on opaque strings: uninterpreted functions of their arguments
def _argsig(M, a):
    out = []
    for x in a:
        x = deref(M, x)
        if isinstance(x, Tok): out.append(x.name)
        elif isinstance(x, ValSlice) and all(z3.is_bv_value(b) for b in x.elems): out.append(repr(bytes(b.as_long() for b in x.elems)))
        elif z3.is_bv_value(x): out.append(str(x.as_long()))
        else: out.append(str(x))
    return ','.join(out)


def m_str_opaque(M, a, c, fr):
    recv = deref(M, a[0])
    meth = re.search(r'<impl str>::(\w+)|String::(\w+)', c)
    meth = meth.group(1) or meth.group(2)
    if not isinstance(recv, Tok): raise Inconclusive('unmodelled string operation on a concrete string: ' + c)
    sig = '%s(%s)' % (meth, _argsig(M, a))
    if meth in ('contains', 'starts_with', 'ends_with', 'is_empty', 'is_char_boundary', 'eq_ignore_ascii_case'): return z3.Bool(sig)
    if meth in ('replace', 'replacen', 'trim', 'trim_start', 'trim_end', 'to_lowercase', 'to_uppercase', 'to_string', 'to_owned', 'trim_matches', 'repeat', 'to_ascii_lowercase'): return Tok(sig)
    if meth in ('len',): return z3.BitVec(sig, 64)
    raise Inconclusive('unmodelled string operation on an opaque string: ' + c)


def m_iter_size_hint(M, a, c, fr):
    it = deref(M, a[0])
    if isinstance(it, LazyIntoIt) and it.inner is None: return [it.vec.len, opt_some(it.vec.len)]
    if isinstance(it, IntoIt): n = BV64(len(it.elems) - it.i); return [n, opt_some(n)]
    if isinstance(it, SeqIt): n = M.seq_len(it._seq(M)) - BV64(it.i); return [n, opt_some(n)]
    return [BV64(0), opt_none()]


def m_vec_with_capacity(M, a, c, fr):
    M.aux.setdefault('alloc_requests', []).append(a[0])       # element counts requested up front (memory clause of C14)
    return VecV(BV64(0), [])


def m_vec_reserve(M, a, c, fr):
    M.aux.setdefault('alloc_requests', []).append(a[1]); return []


def m_write_fmt(M, a, c, fr):
    M.aux.setdefault('fmt_log', []).append(a[1])
    return res_ok([])


MODELS = [
    # iterators
    (r'<.* as IntoIterator>::into_iter', m_into_iter),
    (r'core::slice::<impl \[.*\]>::iter(_mut)?', m_slice_iter),
    (r'<.* as Iterator>::next', m_iter_next),
    (r'<.* as Iterator>::map::<.*>', m_iter_map),
    (r'<.* as Iterator>::(take|skip)', m_iter_take_skip),
    (r'<.* as Iterator>::filter::<.*>', m_iter_filter), (r'<.* as Iterator>::(map_while|filter_map|take_while|skip_while)::<.*>', m_iter_closure_adaptor),
    (r'<.* as Iterator>::chain::<.*>', m_iter_chain),
    (r'<.* as Iterator>::enumerate', m_iter_enumerate),
    (r'<.* as Iterator>::cloned::<.*>', m_iter_cloned), (r'<.* as Iterator>::copied::<.*>', m_iter_cloned),
    (r'<.* as Iterator>::zip::<.*>', m_iter_zip), (r'<.* as Iterator>::rev', m_iter_rev),
    (r'<.* as Iterator>::collect::<Vec<.*>>', m_collect_vec),
    (r'<.* as Iterator>::all::<.*>', m_iter_all),
    (r'<.* as Iterator>::any::<.*>', m_iter_any),
    (r'<.* as Iterator>::position::<.*>', m_iter_position), (r'<.* as (Iterator|DoubleEndedIterator|ExactSizeIterator)>::rposition::<.*>', m_iter_rposition),
    (r'<Vec<.*> as Extend<.*>>::extend::<.*>', m_vec_extend), (r'Vec::<.*>::extend_from_slice', m_vec_extend),
    (r'<.* as Iterator>::find::<.*>', m_iter_find),
    (r'<.* as Iterator>::last', m_iter_last),
    (r'<.* as Iterator>::count', m_iter_count),
    (r'<.* as Iterator>::for_each::<.*>', m_iter_for_each), (r'<.* as Iterator>::fold::<.*>', m_iter_fold),
    (r'(std::iter::|core::iter::)?once::<.*>', m_once),
    # Vec / slices
    (r'Vec::<.*>::new', m_vec_new), (r'<Vec<.*> as Default>::default', m_vec_new),
    (r'Vec::<.*>::len', m_vec_len), (r'core::slice::<impl \[.*\]>::len', m_vec_len),
    (r'Vec::<.*>::is_empty', m_vec_is_empty), (r'core::slice::<impl \[.*\]>::is_empty', m_vec_is_empty),
    (r'Vec::<.*>::push', m_vec_push), (r'Vec::<.*>::dedup_by::<.*>', m_vec_dedup_by),
    (r'<Vec<.*> as Deref(Mut)?>::deref(_mut)?', m_ident), (r'Vec::<.*>::as_(mut_)?slice', m_ident),
    (r'<(Vec<.*>|\[.*\]) as Index(Mut)?<usize>>::index(_mut)?', m_index),
    (r'<(Vec<.*>|\[.*\]) as Index(Mut)?<(std::ops::|core::ops::)?Range\w*(<usize>)?>>::index(_mut)?', m_index_range),
    (r'core::slice::<impl \[.*\]>::get::<usize>', m_slice_get),
    (r'core::slice::<impl \[.*\]>::split_first', m_split_first), (r'core::slice::<impl \[.*\]>::split_last', m_split_last),
    (r'core::slice::<impl \[.*\]>::first', m_slice_first), (r'core::slice::<impl \[.*\]>::last', m_slice_last),
    (r'(std|alloc)::slice::<impl \[.*\]>::join::<&str>', m_join), (r'core::slice::<impl \[.*\]>::reverse', m_slice_reverse),
    # BTreeMap (array model)
    (r'BTreeMap::<.*>::new', m_map_new), (r'<BTreeMap<.*> as Default>::default', m_map_new),
    (r'BTreeMap::<.*>::entry', m_map_entry),
    (r"std::collections::btree_map::VacantEntry::<.*>::insert", m_vacant_insert),
    (r"std::collections::btree_map::OccupiedEntry::<.*>::get", m_occupied_get),
    (r'BTreeMap::<.*>::get::<.*>', m_map_get), (r'BTreeMap::<.*>::insert', m_map_insert), (r'BTreeMap::<.*>::iter', m_map_iter),
    (r'BTreeMap::<.*>::len', m_map_len), (r'BTreeMap::<.*>::is_empty', lambda M, a, c, fr: m_map_len(M, a, c, fr) == BV64(0)), (r'BTreeMap::<.*>::contains_key::<.*>', m_map_contains),
    (r'BTreeMap::<.*>::values', m_map_values), (r'BTreeMap::<.*>::keys', m_map_keys), (r'<.* as Iterator>::collect::<BTreeMap<.*>>', m_collect_map),
    # Option / Result
    (r'<(std::option::)?Option<.*> as Default>::default', lambda M, a, c, fr: opt_none()),
    (r'Option::<.*>::map::<.*>', m_opt_map), (r'Option::<.*>::map_or::<.*>', m_opt_map_or),
    (r'Option::<.*>::filter::<.*>', m_opt_filter), (r'Option::<.*>::and_then::<.*>', m_opt_and_then), (r'Option::<.*>::ok_or::<.*>', m_opt_ok_or), (r'Option::<.*>::copied', m_opt_copied),
    (r'Option::<.*>::unwrap_or', m_opt_unwrap_or), (r'Option::<.*>::cloned', m_opt_cloned),
    (r'Option::<.*>::is_some', m_opt_is_some), (r'Option::<.*>::is_none', m_opt_is_none), (r'Option::<.*>::as_(ref|mut|deref|deref_mut)', m_opt_as_ref),
    (r'Option::<.*>::take', m_opt_take), (r'Option::<.*>::get_or_insert_with::<.*>', m_opt_get_or_insert_with), (r'Option::<.*>::or', m_opt_or),
    (r'Option::<.*>::unwrap_or_else::<.*>', m_opt_unwrap_or_else), (r'Option::<.*>::map_or_else::<.*>', m_opt_map_or_else),
    (r'<(std::option::)?Option<.*> as PartialEq>::eq', m_opt_eq),
    (r'Option::<.*>::(expect|unwrap)', m_opt_expect),
    (r'Result::<.*>::(expect|unwrap)', m_res_expect), (r'Result::<.*>::unwrap_or_else::<.*>', m_res_unwrap_or_else),
    (r'Result::<.*>::ok', m_res_ok), (r'Result::<.*>::err', m_res_err), (r'Result::<.*>::is_(ok|err)', m_res_is),
    (r'Result::<.*>::map_err::<.*>', m_res_map_err), (r'Result::<.*>::map::<.*>', m_res_map),
    (r'<(Result|Option)<.*> as Try>::branch', m_try_branch), (r'<(Result|Option)<.*> as FromResidual<.*>>::from_residual', m_from_residual),
    # str / bytes
    (r'core::str::<impl str>::is_ascii', m_str_is_ascii),
    (r'core::str::<impl str>::trim_start_matches::<&str>', m_trim_start_matches),
    (r'core::str::<impl str>::strip_prefix::<&str>', m_strip_prefix),
    (r'core::str::<impl str>::starts_with::<&str>', m_starts_with),
    (r'core::str::<impl str>::split(_terminator)?::<&str>', m_str_split),
    (r'core::str::<impl str>::as_bytes', m_as_bytes), (r'core::str::<impl str>::len', m_str_len), (r'core::str::<impl str>::is_empty', m_str_is_empty),
    (r'<&?str as PartialEq(<&?str>)?>::eq', m_str_eq), (r'<String as PartialEq(<.*>)?>::eq', m_str_eq),
    (r'core::num::<impl u8>::is_ascii_lowercase', u8_pred(97, 122)), (r'core::num::<impl u8>::is_ascii_uppercase', u8_pred(65, 90)),
    (r'core::num::<impl u8>::is_ascii_digit', u8_pred(48, 57)),
    (r'core::num::<impl u8>::is_ascii_alphabetic', m_u8_alpha), (r'core::num::<impl u8>::is_ascii_alphanumeric', m_u8_alnum),
    (r'<String as Deref(Mut)?>::deref(_mut)?', m_ident), (r'String::as_str', m_ident), (r'<String as AsRef<str>>::as_ref', m_ident), (r'<String as Borrow<str>>::borrow', m_ident),
    (r'<(&?str|String|&?[A-Z]) as AsRef<str>>::as_ref', m_str_to_owned), (r'<(&?str|String) as Borrow<str>>::borrow', m_str_to_owned),
    (r'<&str as Into<String>>::into', m_str_to_owned), (r'<String as From<&str>>::from', m_str_to_owned),
    (r'(alloc|std)::string::<impl ToString for str>::to_string|<str as ToString>::to_string|<str as ToOwned>::to_owned', m_str_to_owned),
    # TypeId
    (r'core::slice::<impl \[.*\]>::binary_search_by::<.*>', m_binary_search_by), (r'Vec::<.*>::insert', m_vec_insert), (r'<T as Ord>::cmp', m_opaque_cmp),
    (r'Box::<\[.*; \d+\]>::new_uninit', m_box_new_uninit), (r'(std|alloc)::boxed::box_assume_init_into_vec_unsafe::<.*>', m_box_into_vec),
    (r'(core::|std::)?(any::)?type_name::<.*>', m_type_name), (r'<&?str as Ord>::cmp', m_str_cmp), (r'<&?str as PartialOrd>::partial_cmp', lambda M, a, c, fr: opt_some(m_str_cmp(M, a, c, fr))),
    (r'(std::cmp::|core::cmp::)?Ordering::then_with::<.*>', m_ordering_then_with), (r'(std::cmp::|core::cmp::)?Ordering::then', m_ordering_then),
    (r'<&?str as Hash>::hash(::<.*>)?', lambda M, a, c, fr: (M.aux.setdefault('hash_log', []).append(deref(M, a[0])), [])[1]),
    (r'TypeId::of::<.*>', m_typeid_of), (r'<TypeId as PartialEq>::eq', m_typeid_eq), (r'<TypeId as Ord>::cmp', m_typeid_cmp),
    (r'<(TypeId|usize|u8|u16|u32|u64|u128|isize|i32|i64|bool|str|String) as Hash>::hash::<.*>', m_typeid_hash), (r'<TypeId as Clone>::clone', lambda M, a, c, fr: deref(M, a[0])),
    (r'<&(mut )?(?!str\b)[\w:]+(<.*>)? as PartialEq(<.*>)?>::(eq|ne)', m_ref_eq),
    (r'<Vec<.*> as PartialEq>::(eq|ne)', lambda M, a, c, fr: (M.val_eq(deref(M, a[0]), deref(M, a[1])) if c.endswith('eq') else z3.Not(M.val_eq(deref(M, a[0]), deref(M, a[1]))))),
    # misc
    (r'<.* as Iterator>::size_hint', m_iter_size_hint), (r'Vec::<.*>::with_capacity', m_vec_with_capacity), (r'Vec::<.*>::reserve(_exact)?', m_vec_reserve),
    (r'(core|alloc|std)::str::<impl str>::\w+(::<.*>)?', m_str_opaque), (r'String::(replace|trim\w*|contains|starts_with|ends_with|len|is_empty)(::<.*>)?', m_str_opaque),
    (r'<[A-Z]\w? as PartialEq>::(eq|ne)', lambda M, a, c, fr: (M.val_eq(deref(M, a[0]), deref(M, a[1])) if c.endswith('eq') else z3.Not(M.val_eq(deref(M, a[0]), deref(M, a[1]))))),
    (r'core::num::<impl [ui](8|16|32|64|128|size)>::from_(le|be)_bytes', m_from_le_bytes), (r'core::num::<impl [ui](8|16|32|64|128|size)>::to_(le|be)_bytes', m_to_le_bytes),
    (r'<[ui](8|16|32|64|128|size) as (Try)?From<([ui](8|16|32|64|128|size)|bool)>>::(try_)?from', m_int_from),
    (r'<.+ as Into<.+>>::into', m_into_via_from),
    (r'<.* as Clone>::clone', m_clone),
    (r'(std|core)::mem::replace::<.*>', m_replace), (r'(std|core)::mem::take::<.*>', m_take),
    (r'<PhantomData<.*> as Default>::default', m_phantom_default),
    (r'<(u8|u16|u32|u64|u128|usize|i8|i16|i32|i64|i128|isize|bool) as Default>::default', m_int_default),
    (r'core::panicking::panic(_fmt|_display|_explicit)?(::<.*>)?|panic_fmt|std::rt::begin_panic.*|core::panicking::\w+', m_panic),
    (r'core::num::<impl (usize|u32|u64)>::saturating_add', m_saturating_add),
    (r'core::num::<impl (usize|u8|u16|u32|u64)>::wrapping_add', lambda M, a, c, fr: a[0] + a[1]), (r'core::num::<impl (usize|u8|u16|u32|u64)>::wrapping_sub', lambda M, a, c, fr: a[0] - a[1]),
    (r'core::num::<impl (usize|u8|u16|u32|u64)>::to_le_bytes', lambda M, a, c, fr: [z3.simplify(z3.Extract(8 * i + 7, 8 * i, a[0])) for i in range(a[0].size() // 8)]),
    (r'core::num::<impl (usize|u8|u16|u32|u64)>::checked_add', lambda M, a, c, fr: (opt_none() if not M.concrete_bool(z3.UGE(a[0] + a[1], a[0]), 'checked_add') else opt_some(a[0] + a[1]))),
    (r'core::cmp::(min|max)::<.*>|std::cmp::(min|max)::<.*>', lambda M, a, c, fr: (z3.If(z3.ULE(a[0], a[1]), a[0], a[1]) if 'min' in c else z3.If(z3.UGE(a[0], a[1]), a[0], a[1]))),
    (r'core::fmt::rt::Argument::<.*>::new_(display|debug)::<.*>', lambda M, a, c, fr: ['fmt-arg', deref(M, a[0])]),
    (r'Arguments::<.*>::new(_const|_v1)?(::<.*>)?', lambda M, a, c, fr: ['fmt-args'] + [deref(M, x) for x in a]),
    (r'Formatter::<.*>::write_fmt', m_write_fmt),
]
