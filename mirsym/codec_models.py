"""Models of the parity-scale-codec primitives that the derived Encode/Decode impls of scale-info are composed of (DESIGN.md §2.4).

Derived impls themselves are executed from MIR; these entries give the documented SCALE behaviour of the leaves:
u8, u32 (little endian), Compact<u32> (canonical: non-minimal encodings are errors), Option<T> (tag 0/1), Vec<T> and String
(compact length, then elements / UTF-8 bytes; element codec = call back into the element type's MIR), PhantomData, error plumbing.
The scalar models (Compact<u32>, u32, u8, Option tag) are compared with the real codec for all inputs by Kani harnesses (engine K).
"""
import re
import z3
from .engine import *
from .models import opt_none, opt_some, res_ok, res_err, deref, is_variant, payload, seq_elems, BV64, m_into_via_from

ERR = Tok('codec-error')


class InBuf:
    def __init__(self, bs): self.bytes, self.pos = list(bs), 0
    def rem(self): return len(self.bytes) - self.pos


class OutBuf:
    def __init__(self): self.bytes = []


class AbsElems:
    """stream item standing for the encodings of all n elements of a vector of symbolic length (length-abstraction harnesses):
    written by the Vec encode model for an ArrVec, taken whole by the Vec decode model or element-wise by a hand-written loop"""
    def __init__(self, arr, n): self.arr, self.n, self.used = arr, n, 0
    def same(self, o): return isinstance(o, AbsElems) and z3.eq(self.arr, o.arr) and z3.eq(self.n, o.n)


ABS_ELEM_CAP = 3


def pass_abs(M, i):
    """a primitive read with an element block at the head of the input: the block must have been consumed entirely"""
    while i.pos < len(i.bytes) and isinstance(i.bytes[i.pos], AbsElems):
        it = i.bytes[i.pos]
        M.aux.setdefault('abs_viol', []).append(('decoder went on after %d of the N elements of a vector' % it.used, it.n != BV64(it.used)))
        M.add(it.n == BV64(it.used)); i.pos += 1


def m_any_decode(M, a, c, fr):
    """lowest-priority entry of the length-abstraction harnesses: decoding one element out of an element block yields the next opaque element;
    anything else is the ordinary MIR of the callee"""
    i = deref(M, a[0])
    if isinstance(i, InBuf) and i.pos < len(i.bytes) and isinstance(i.bytes[i.pos], AbsElems):
        it = i.bytes[i.pos]
        if it.used >= ABS_ELEM_CAP:
            M.emit('cut', why='hand-written element loop followed for %d iterations' % ABS_ELEM_CAP); raise PathEnd()
        M.aux.setdefault('abs_viol', []).append(('decoder reads element %d of a vector of N elements' % it.used, z3.ULE(it.n, BV64(it.used))))
        M.add(z3.UGT(it.n, BV64(it.used)))
        e = z3.Select(it.arr, BV64(it.used)); it.used += 1
        return res_ok(e)
    fn = M.resolve(c)
    if fn is None: raise Inconclusive('unmodelled callee: ' + c)
    return M.run_fn(fn, a, M.callee_tenv(fn, c))


ABS_MODELS = [(r'<.+ as Decode>::decode(::<.*>)?', m_any_decode)]


def inbuf(M, r):
    b = deref(M, r)
    if not isinstance(b, InBuf): raise Inconclusive('codec input is %r' % (b,))
    return b


def outbuf(M, r):
    b = deref(M, r)
    if not isinstance(b, OutBuf): raise Inconclusive('codec output is %r' % (b,))
    return b


# ----------------------------------------------------------------------------- UTF-8 validity (full definition, RFC 3629 / Unicode table 3-7)
def utf8_valid(bs):
    """z3 Bool: the concrete-length symbolic byte list is well-formed UTF-8 (DFA over byte classes)"""
    def rng(b, lo, hi): return z3.And(z3.UGE(b, lo), z3.ULE(b, hi))
    # states: 0 start; 1 need 1 cont; 2 need 2 cont; 3 need 3 cont; 4 after E0 (A0..BF); 5 after ED (80..9F); 6 after F0 (90..BF); 7 after F4 (80..8F); dead = none true
    st = [z3.BoolVal(True)] + [z3.BoolVal(False)] * 7
    for b in bs:
        cont = rng(b, 0x80, 0xBF)
        n = [None] * 8
        n[0] = z3.Or(z3.And(st[0], z3.ULT(b, 0x80)), z3.And(st[1], cont))
        n[1] = z3.Or(z3.And(st[0], rng(b, 0xC2, 0xDF)), z3.And(st[2], cont), z3.And(st[4], rng(b, 0xA0, 0xBF)), z3.And(st[5], rng(b, 0x80, 0x9F)))
        n[2] = z3.Or(z3.And(st[0], z3.Or(rng(b, 0xE1, 0xEC), rng(b, 0xEE, 0xEF))), z3.And(st[3], cont), z3.And(st[6], rng(b, 0x90, 0xBF)), z3.And(st[7], rng(b, 0x80, 0x8F)))
        n[3] = z3.And(st[0], rng(b, 0xF1, 0xF3))
        n[4] = z3.And(st[0], b == 0xE0)
        n[5] = z3.And(st[0], b == 0xED)
        n[6] = z3.And(st[0], b == 0xF0)
        n[7] = z3.And(st[0], b == 0xF4)
        st = n
    return st[0]


# ----------------------------------------------------------------------------- encode side
def enc_compact_u32(M, out, v, label='compact.class'):
    """SCALE compact encoding of a u32 (forks over the four size classes when the value is symbolic)"""
    k = M.choose([z3.ULE(v, 63), z3.And(z3.UGT(v, 63), z3.ULE(v, 16383)), z3.And(z3.UGT(v, 16383), z3.ULE(v, 2 ** 30 - 1)), z3.UGT(v, 2 ** 30 - 1)], label)
    if k == 0: out.bytes.append(z3.simplify(z3.Extract(7, 0, v << 2)))
    elif k == 1:
        w = (z3.Extract(15, 0, v) << 2) | 1
        out.bytes += [z3.simplify(z3.Extract(7, 0, w)), z3.simplify(z3.Extract(15, 8, w))]
    elif k == 2:
        w = (v << 2) | 2
        out.bytes += [z3.simplify(z3.Extract(8 * i + 7, 8 * i, w)) for i in range(4)]
    else:
        out.bytes.append(bv(3, 8)); out.bytes += [z3.simplify(z3.Extract(8 * i + 7, 8 * i, v)) for i in range(4)]


def m_push_byte(M, a, c, fr):
    outbuf(M, a[0]).bytes.append(a[1]); return []


def m_enc_u8(M, a, c, fr):
    outbuf(M, a[1]).bytes.append(deref(M, a[0])); return []


def m_enc_u32(M, a, c, fr):
    v = deref(M, a[0]); outbuf(M, a[1]).bytes += [z3.simplify(z3.Extract(8 * i + 7, 8 * i, v)) for i in range(4)]; return []


def m_enc_int(M, a, c, fr):
    v = deref(M, a[0]); outbuf(M, a[1]).bytes += [z3.simplify(z3.Extract(8 * i + 7, 8 * i, v)) for i in range(v.size() // 8)]; return []


def m_out_write(M, a, c, fr):
    bs = deref(M, a[1])
    xs = list(bs.elems) if isinstance(bs, ValSlice) else (bs if isinstance(bs, list) else None)
    if xs is None: raise Inconclusive('Output::write of %r' % (bs,))
    outbuf(M, a[0]).bytes += xs; return []


def m_enc_compact_val(M, a, c, fr):
    cv = deref(M, a[0]); v = cv[0] if isinstance(cv, list) else cv
    enc_compact_u32(M, outbuf(M, a[1]), v); return []


def m_dec_int(M, a, c, fr):
    w = BITS[re.match(r'<(\w+) as Decode>', c).group(1)] // 8
    i = inbuf(M, a[0])
    if i.rem() < w: return res_err(ERR)
    b = i.bytes[i.pos:i.pos + w]; i.pos += w
    return res_ok(z3.simplify(z3.Concat(*reversed(b))) if w > 1 else b[0])


def m_enc_compactref(M, a, c, fr):
    cr = deref(M, a[0])            # CompactRef(&u32)
    v = deref(M, cr[0])
    enc_compact_u32(M, outbuf(M, a[1]), v); return []


def m_compactref_from(M, a, c, fr): return [a[0]]


def elem_type(c, outer):
    m = re.fullmatch(r'<&?(?:std::vec::)?%s<(.+)> as (Encode|Decode)>::\w+(::<.*>)?' % outer, c)
    if not m: raise Inconclusive('element type of ' + c)
    return m.group(1)


def m_enc_vec(M, a, c, fr):
    v = deref(M, a[0]); out = outbuf(M, a[1])
    et = elem_type(c, 'Vec')
    if isinstance(v, ArrVec):       # abstract vector: exact length prefix, then one block for all elements
        enc_compact_u32(M, out, z3.Extract(31, 0, v.len)); out.bytes.append(AbsElems(v.data, v.len)); return []
    n = M.concrete(v.len, 'vec.len') if isinstance(v, VecV) else len(v.elems)
    enc_compact_u32(M, out, bv(n, 32))
    base = a[0]
    while isinstance(M.load(base), Ref): base = M.load(base)
    for i in range(n):
        M.call('<%s as Encode>::encode_to::<__CodecOutputEdqy>' % et, [Ref(base.cell, base.path + (('e', i),)), a[1]], fr)
    return []


def m_enc_string(M, a, c, fr):
    s = deref(M, a[0]); out = outbuf(M, a[1])
    if not isinstance(s, ValSlice): raise Inconclusive('encoding an opaque string')
    enc_compact_u32(M, out, bv(len(s.elems), 32)); out.bytes += list(s.elems); return []


def m_enc_option(M, a, c, fr):
    o = deref(M, a[0]); out = outbuf(M, a[1])
    m = re.fullmatch(r'<&?(?:std::option::)?Option<(.+)> as Encode>::\w+(::<.*>)?', c)
    base = a[0]
    while isinstance(M.load(base), Ref): base = M.load(base)
    if is_variant(M, o, 1, 'Option.encode'):
        out.bytes.append(bv(1, 8))
        M.call('<%s as Encode>::encode_to::<__CodecOutputEdqy>' % m.group(1), [Ref(base.cell, base.path + (('v', 1), 0)), a[1]], fr)
    else: out.bytes.append(bv(0, 8))
    return []


def m_enc_ref(M, a, c, fr):
    m = re.fullmatch(r'<&(?:mut )?(.+) as Encode>::(\w+)(::<.*>)?', c)
    return M.call('<%s as Encode>::%s%s' % (m.group(1), m.group(2), m.group(3) or ''), [M.load(a[0])] + a[1:], fr)


# ----------------------------------------------------------------------------- decode side
def m_read_byte(M, a, c, fr):
    i = inbuf(M, a[0]); pass_abs(M, i)
    if i.rem() < 1: return res_err(ERR)
    b = i.bytes[i.pos]; i.pos += 1; return res_ok(b)


def m_dec_u32(M, a, c, fr):
    i = inbuf(M, a[0]); pass_abs(M, i)
    if i.rem() < 4: return res_err(ERR)
    b = i.bytes[i.pos:i.pos + 4]; i.pos += 4
    return res_ok(z3.simplify(z3.Concat(b[3], b[2], b[1], b[0])))


def dec_compact_u32(M, i):
    """returns BV32 or None (error). canonical form required, as in parity-scale-codec"""
    pass_abs(M, i)
    if i.rem() < 1: return None
    p, bs = i.pos, i.bytes
    rem = 0
    while p + rem < len(bs) and not isinstance(bs[p + rem], AbsElems): rem += 1
    b0 = bs[p]; mode = b0 & 3
    alts, acts = [], []
    alts.append(mode == 0); acts.append((1, z3.ZeroExt(24, z3.LShR(b0, 2))))
    if rem >= 2:
        v = z3.LShR(z3.Concat(bs[p + 1], b0), 2)
        alts.append(z3.And(mode == 1, z3.UGT(v, 63))); acts.append((2, z3.ZeroExt(16, v)))
        alts.append(z3.And(mode == 1, z3.ULE(v, 63))); acts.append(None)
    else:
        alts.append(mode == 1); acts.append(None)
    if rem >= 4:
        v = z3.LShR(z3.Concat(bs[p + 3], bs[p + 2], bs[p + 1], b0), 2)
        alts.append(z3.And(mode == 2, z3.UGT(v, 16383))); acts.append((4, v))
        alts.append(z3.And(mode == 2, z3.ULE(v, 16383))); acts.append(None)
    else:
        alts.append(mode == 2); acts.append(None)
    if rem >= 5:
        v = z3.Concat(bs[p + 4], bs[p + 3], bs[p + 2], bs[p + 1])
        alts.append(z3.And(b0 == 3, z3.UGT(v, 2 ** 30 - 1))); acts.append((5, v))
        alts.append(z3.And(mode == 3, z3.Or(b0 != 3, z3.ULE(v, 2 ** 30 - 1)))); acts.append(None)
    else:
        alts.append(mode == 3); acts.append(None)
    k = M.choose(alts, 'compact.decode')
    if acts[k] is None: return None
    i.pos = p + acts[k][0]
    return z3.simplify(acts[k][1])


def m_dec_compact(M, a, c, fr):
    v = dec_compact_u32(M, inbuf(M, a[0]))
    return res_err(ERR) if v is None else res_ok([v])


def m_dec_vec(M, a, c, fr):
    i = inbuf(M, a[0]); et = elem_type(c, 'Vec')
    n = dec_compact_u32(M, i)
    if n is None: return res_err(ERR)
    if i.pos < len(i.bytes) and isinstance(i.bytes[i.pos], AbsElems) and i.bytes[i.pos].used == 0:
        it = i.bytes[i.pos]; i.pos += 1
        M.aux.setdefault('abs_viol', []).append(('length prefix differs from the number of elements', z3.ZeroExt(32, n) != it.n))
        return res_ok(ArrVec(z3.ZeroExt(32, n), it.arr))
    rem = i.rem()
    # every element type of scale-info's own structures occupies at least one byte: a length beyond the remaining input ends in an error
    alts = [n == k for k in range(rem + 1)] + [z3.UGT(n, rem)]
    k = M.choose(alts, 'vec.decode.len')
    M.aux['vec_decodes'] = M.aux.get('vec_decodes', 0) + 1
    if k == rem + 1: return res_err(ERR)
    out = []
    for _ in range(k):
        r = M.call('<%s as Decode>::decode::<__CodecInputEdqy>' % et, [a[0]], fr)
        if is_variant(M, r, 1, 'vec.elem'): return res_err(ERR)
        out.append(payload(r, 0)[0])
    return res_ok(VecV(BV64(k), out))


def m_dec_string(M, a, c, fr):
    i = inbuf(M, a[0])
    n = dec_compact_u32(M, i)
    if n is None: return res_err(ERR)
    rem = 0
    while i.pos + rem < len(i.bytes) and not isinstance(i.bytes[i.pos + rem], AbsElems): rem += 1
    k = M.choose([n == k for k in range(rem + 1)] + [z3.UGT(n, rem)], 'string.decode.len')
    if k == rem + 1: return res_err(ERR)
    bs = i.bytes[i.pos:i.pos + k]; i.pos += k
    if not M.concrete_bool(utf8_valid(bs), 'string.utf8'): return res_err(ERR)
    return res_ok(ValSlice(bs, is_str=True))


def m_dec_option(M, a, c, fr):
    i = inbuf(M, a[0])
    m = re.fullmatch(r'<(?:std::option::)?Option<(.+)> as Decode>::decode(::<.*>)?', c)
    pass_abs(M, i)
    if i.rem() < 1: return res_err(ERR)
    b = i.bytes[i.pos]; i.pos += 1
    k = M.choose([b == 0, b == 1, z3.UGT(b, 1)], 'option.tag')
    if k == 0: return res_ok(opt_none())
    if k == 2: return res_err(ERR)
    r = M.call('<%s as Decode>::decode::<__CodecInputEdqy>' % m.group(1), [a[0]], fr)
    if is_variant(M, r, 1, 'option.payload'): return res_err(ERR)
    return res_ok(opt_some(payload(r, 0)[0]))


def m_remaining_len(M, a, c, fr):
    """Input::remaining_len of a byte-slice input: Ok(Some(bytes left))"""
    i = inbuf(M, a[0]); pass_abs(M, i)
    if any(isinstance(b, AbsElems) for b in i.bytes[i.pos:]): raise Inconclusive('remaining_len of an input with abstract element blocks')
    return res_ok(opt_some(BV64(i.rem())))


def m_input_read(M, a, c, fr):
    """Input::read(&mut self, into: &mut [u8]): fills the whole buffer or fails"""
    i = inbuf(M, a[0]); pass_abs(M, i)
    tgt = M.load(a[1])
    n = len(tgt.elems) if isinstance(tgt, (ValSlice, VecV)) else len(tgt)
    if isinstance(tgt, VecV): n = M.concrete(tgt.len, 'read.len')
    if i.rem() < n or any(isinstance(b, AbsElems) for b in i.bytes[i.pos:i.pos + n]): return res_err(ERR)
    bs = list(i.bytes[i.pos:i.pos + n]); i.pos += n
    M.store(a[1], bs if isinstance(tgt, list) else (VecV(BV64(n), bs) if isinstance(tgt, VecV) else ValSlice(bs)))
    return res_ok([])


def m_err(M, a, c, fr): return ERR
def m_chain(M, a, c, fr): return a[0]


CODEC_MODELS = [
    (r'<__Codec\w+ as (parity_scale_codec::)?Output>::push_byte', m_push_byte),
    (r'<u8 as Encode>::encode_to(::<.*>)?', m_enc_u8), (r'<u32 as Encode>::encode_to(::<.*>)?', m_enc_u32),
    (r'<(u16|u64|u128|i8|i16|i32|i64) as Encode>::encode_to(::<.*>)?', m_enc_int), (r'<__Codec\w+ as (parity_scale_codec::)?Output>::write', m_out_write),
    (r'<Compact<u32> as Encode>::encode_to(::<.*>)?', m_enc_compact_val), (r'<(u16|u64) as Decode>::decode(::<.*>)?', m_dec_int),
    (r"<CompactRef<'_, u32> as Encode>::encode_to(::<.*>)?", m_enc_compactref), (r"<CompactRef<'_, u32> as From<&u32>>::from", m_compactref_from),
    (r'<&?Vec<.+> as Encode>::encode_to(::<.*>)?', m_enc_vec), (r'<&?String as Encode>::encode_to(::<.*>)?', m_enc_string),
    (r'<&?(std::option::)?Option<.+> as Encode>::encode_to(::<.*>)?', m_enc_option),
    (r'<&(mut )?.+ as Encode>::encode_to(::<.*>)?', m_enc_ref),
    (r'<PhantomData<.*> as Encode>::encode_to(::<.*>)?', lambda M, a, c, fr: []),
    (r'<.+ as Encode>::size_hint', lambda M, a, c, fr: BV64(0)),
    (r'<(__Codec\w+|I) as (parity_scale_codec::)?Input>::read_byte', m_read_byte), (r'<(__Codec\w+|I) as (parity_scale_codec::)?Input>::remaining_len', m_remaining_len), (r'<(__Codec\w+|I) as (parity_scale_codec::)?Input>::read', m_input_read), (r'<u8 as Decode>::decode(::<.*>)?', m_read_byte),
    (r'<u32 as Decode>::decode(::<.*>)?', m_dec_u32), (r'<Compact<u32> as Decode>::decode(::<.*>)?', m_dec_compact),
    (r'<Compact<u32> as Into<u32>>::into', lambda M, a, c, fr: a[0][0]),
    (r'<Vec<.+> as Decode>::decode(::<.*>)?', m_dec_vec), (r'<String as Decode>::decode(::<.*>)?', m_dec_string),
    (r'<(std::option::)?Option<.+> as Decode>::decode(::<.*>)?', m_dec_option),
    (r'<PhantomData<.*> as Decode>::decode(::<.*>)?', lambda M, a, c, fr: res_ok(None)),
    (r'parity_scale_codec::Error::chain::<.*>', m_chain),
    (r'<.* as Into<parity_scale_codec::Error>>::into', m_err), (r'<parity_scale_codec::Error as From<.*>>::from', m_err),
]

CODEC_SUBST = [(r'<T as (form::)?Form>::Type', 'UntrackedSymbol<TypeId>'), (r'<T as (form::)?Form>::String', 'String'),
               (r'<PortableForm as (form::)?Form>::Type', 'UntrackedSymbol<TypeId>'), (r'<PortableForm as (form::)?Form>::String', 'String'),
               (r'<T>', '<PortableForm>')]
