"""Engine K runner: one `cargo kani` process per harness (own log, timeout, address-space limit), N at a time.
A harness counts as decided only with `VERIFICATION:- SUCCESSFUL`, no unwinding-assertion failure and every cover property satisfied."""
import os, re, subprocess, time, json, shutil
from concurrent.futures import ThreadPoolExecutor
from lib.common import VERIF, REPO, BUILD, ENV, CheckInconclusive, crates_root

KDIR = os.path.join(crates_root(), 'kani')


def prepare():
    shutil.copyfile(os.path.join(REPO, 'Cargo.lock'), os.path.join(KDIR, 'Cargo.lock'))
    from lib.common import point_crate_at_repo
    point_crate_at_repo(os.path.join(KDIR, 'Cargo.toml'))
    os.makedirs(os.path.join(BUILD, 'kani-logs'), exist_ok=True)


MODS = [('c06_', 'c06'), ('leaf_', 'leaves'), ('c03_r', 'c03_gen'), ('c04_r', 'c04_gen')]


def qualify(h):
    if '::' in h: return h
    for pre, mod in MODS:
        if h.startswith(pre): return '%s::%s' % (mod, h)
    return h


def run_one(h, timeout, extra=(), mem_kb=16_000_000, crate=KDIR, target='kani-target'):
    log = os.path.join(BUILD, 'kani-logs', h + '.log')
    cmd = 'ulimit -v %d; exec timeout %d cargo kani --target-dir %s --harness %s --exact --output-format terse %s' % (mem_kb, timeout, os.path.join(BUILD, target), qualify(h), ' '.join(extra))
    t0 = time.time()
    with open(log, 'w') as f:
        r = subprocess.run(['bash', '-c', cmd], cwd=crate, env=ENV, stdout=f, stderr=subprocess.STDOUT)
    txt = open(log, errors='replace').read()
    res = {'harness': h, 'wall_s': round(time.time() - t0, 1), 'rc': r.returncode, 'log': log}
    m = re.search(r'Verification Time: ([\d.]+)s', txt)
    res['solver_s'] = float(m.group(1)) if m else None
    ok = 'VERIFICATION:- SUCCESSFUL' in txt
    failed = 'VERIFICATION:- FAILED' in txt
    unwind = 'unwinding assertion' in txt and 'Failed Checks: unwinding' in txt
    cov = re.search(r'(\d+) of (\d+) cover properties satisfied', txt)
    res['covers'] = [int(cov.group(1)), int(cov.group(2))] if cov else None
    checks = re.search(r'\*\* (\d+) of (\d+) failed', txt)
    res['checks'] = int(checks.group(2)) if checks else None
    if ok and not unwind and (not cov or cov.group(1) == cov.group(2)): res['verdict'] = 'successful'
    elif failed and not unwind and 'Status: ERROR' not in txt and r.returncode not in (124, 137): 
        res['verdict'] = 'failed'
        res['failed_checks'] = re.findall(r'Failed Checks: (.*)', txt)[:6]
    else:
        res['verdict'] = 'undecided'
        res['why'] = 'timeout' if r.returncode == 124 else ('unwinding bound too small' if unwind else ('cover not satisfied (vacuous?)' if ok else txt[-400:]))
    return res


def run_many(harnesses, timeout=600, jobs=6, extra=()):
    prepare()
    # build once (serial) so that the parallel runs only verify
    first = run_one(harnesses[0], timeout, extra)
    out = [first]
    with ThreadPoolExecutor(max_workers=jobs) as ex:
        out += list(ex.map(lambda h: run_one(h, timeout, extra), harnesses[1:]))
    return out
