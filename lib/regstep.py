"""Rely/guarantee step of Registry::register_type executed from MIR (shared by C01, C05, C11).

State s: interner map mp/mv (TypeId -> present / index), vec len n and data (index -> TypeId), definition map D/tys (u32 -> present / Def).
Def is an uninterpreted sort; maxref(def) is one more than the largest id it mentions (uninterpreted).
The nested `Type::into_portable(self)` (which may register arbitrarily many further types) is replaced by havoc constrained by the
rely condition R; the guarantee G of the outer call has the same shape, so by induction on the call depth every call satisfies it.
"""
import z3
from mirsym.engine import *
from mirsym.models import deref, payload
from lib.inst import decide

TID = z3.DeclareSort('TypeIdSort'); U64 = z3.BitVecSort(64); U32 = z3.BitVecSort(32); Def = z3.DeclareSort('Def')
maxref = z3.Function('maxref', Def, U64)
SORTS = {'k': TID, 'i': U64, 'd': U32}
LIMIT = bv(2 ** 32, 64)


def state(tag):
    return dict(mp=z3.Array('mp_' + tag, TID, z3.BoolSort()), mv=z3.Array('mv_' + tag, TID, U64), n=z3.BitVec('n_' + tag, 64), data=z3.Array('data_' + tag, U64, TID),
                D=z3.Array('D_' + tag, U32, z3.BoolSort()), tys=z3.Array('tys_' + tag, U32, Def))


def z64(d): return z3.ZeroExt(32, d)


def INV(s):
    """quantified hypotheses about one state: interner bijection, defined ids are interned, defined entries mention interned ids only"""
    return [('k', lambda k: z3.Implies(z3.Select(s['mp'], k), z3.And(z3.ULT(z3.Select(s['mv'], k), s['n']), z3.Select(s['data'], z3.Select(s['mv'], k)) == k))),
            ('i', lambda i: z3.Implies(z3.ULT(i, s['n']), z3.And(z3.Select(s['mp'], z3.Select(s['data'], i)), z3.Select(s['mv'], z3.Select(s['data'], i)) == i))),
            ('d', lambda d: z3.Implies(z3.Select(s['D'], d), z3.ULT(z64(d), s['n']))),
            ('d', lambda d: z3.Implies(z3.Select(s['D'], d), z3.ULE(maxref(z3.Select(s['tys'], d)), s['n'])))]


def REL(a, b):
    """rely / guarantee between an earlier state a and a later state b (without the per-state invariants)"""
    return [('i', lambda i: z3.Implies(z3.ULT(i, a['n']), z3.Select(b['data'], i) == z3.Select(a['data'], i))),
            ('d', lambda d: z3.Implies(z3.Select(a['D'], d), z3.And(z3.Select(b['D'], d), z3.Select(b['tys'], d) == z3.Select(a['tys'], d)))),
            ('d', lambda d: z3.Implies(z3.And(z3.Select(b['D'], d), z3.Not(z3.Select(a['D'], d))), z3.And(z3.ULE(a['n'], z64(d)), z3.ULT(z64(d), b['n'])))),
            ('d', lambda d: z3.Implies(z3.And(z3.ULE(a['n'], z64(d)), z3.ULT(z64(d), b['n'])), z3.Select(b['D'], d)))]


REL_NAMES = ['interned prefix kept (ids stable)', 'existing definitions unchanged', 'only newly interned ids became defined', 'every id interned during the call is defined at return']
INV_NAMES = ['interner: map -> vec inverse', 'interner: vec -> map inverse', 'defined ids are interned', 'defined entries mention interned ids only']


def as_goals(prefix, named_hyps, names):
    return [('%s: %s' % (prefix, nm), k, f) for (k, f), nm in zip(named_hyps, names)]


def relevant(name, tag):
    return '|' not in name or tag in name.split('|')[0].split(',')


def closure_for(states):
    def closure(T):
        K, I = list(T.get('k', [])), list(T.get('i', []))
        for _ in range(1):
            for s in states:
                for k in list(K):
                    t = z3.Select(s['mv'], k)
                    if not any(z3.eq(t, u) for u in I): I.append(t)
                for i in list(I):
                    t = z3.Select(s['data'], i)
                    if not any(z3.eq(t, u) for u in K): K.append(t)
        T = dict(T); T['k'], T['i'] = K, I
        return T
    return closure


def to_heap(s):
    return [[MapV(s['mp'], s['mv']), ArrVec(s['n'], s['data'])], MapV(s['D'], s['tys'])]


def from_heap(v):
    return dict(mp=v[0][0].present, mv=v[0][0].val, n=v[0][1].len, data=v[0][1].data, D=v[1].present, tys=v[1].val)


def body_register_type(wrong=None, drop=None):
    """one call of Registry::register_type from an arbitrary state satisfying INV (ground-instantiated), argument with arbitrary TypeId"""
    def body(M):
        M.aux['tid_sort'] = TID
        s0, s2 = state('0'), state('2')
        P = z3.Const('P', Def)
        tid = z3.Const('tid', TID)
        rcell = Cell(to_heap(s0))
        log = []
        def fn_type_info(M):
            log.append('type_info'); return Tok('TYPE')
        mt = Cell([fn_type_info, tid])
        aux = {}
        def m_into_portable(M, a, c, fr):
            log.append('into_portable')
            if a[0] != Tok('TYPE'): raise Inconclusive('into_portable applied to something else than the type_info() result')
            s1 = from_heap(M.load(a[1])); aux['s1'] = s1
            M.store(a[1], to_heap(s2))
            return P
        M.models.insert(0, (re.compile(r'<ty::Type as IntoPortable>::into_portable'), m_into_portable))
        M.add(z3.ULT(s0['n'], LIMIT - 1)); M.add(z3.ULT(s2['n'], LIMIT))
        M.aux['map_inserts'] = []
        rv = M.run_fn(M.resolve('Registry::register_type'), [Ref(rcell), Ref(mt)])
        rid = rv[0]
        s3 = from_heap(rcell.v)
        known = z3.Select(s0['mp'], tid)
        hyps = INV(s0)
        terms = {'k': [tid], 'i': [s0['n']], 'd': [rid]}
        ground = []
        nconv = log.count('into_portable')
        if nconv > 1: raise Inconclusive('into_portable called %d times in one register_type' % nconv)
        if nconv == 0:
            cls = 'known'
            goals = [('C01,C05,C11|known type: registered before', None, lambda: known), ('C05|known type: same id as before', None, lambda: z64(rid) == z3.Select(s0['mv'], tid)),
                     ('C01,C05,C11|known type: interner untouched', None, lambda: z3.And(s3['mp'] == s0['mp'], s3['mv'] == s0['mv'], s3['n'] == s0['n'], s3['data'] == s0['data'])),
                     ('C01,C05,C11|known type: definitions untouched', None, lambda: z3.And(s3['D'] == s0['D'], s3['tys'] == s0['tys'])),
                     ('C05|known type: definition not evaluated', None, lambda: z3.BoolVal(log == []))]
            states = [s0]
        else:
            cls = 'new'
            s1 = aux['s1']
            ins = M.aux['map_inserts']
            # rely for the nested conversion: relation s1 -> s2, invariants of s2, returned definition mentions interned ids only
            hyps = hyps + REL(s1, s2) + INV(s2)
            ground = [z3.ULE(s1['n'], s2['n']), z3.ULE(maxref(P), s2['n'])]
            goals = [('C05|new type: not registered before', None, lambda: z3.Not(known)), ('C01,C05|new type: id == number of types before', None, lambda: z64(rid) == s0['n']),
                     ('C05|new type: definition evaluated exactly once, after interning', None, lambda: z3.BoolVal(log == ['type_info', 'into_portable'])),
                     ('C01,C05|new type: exactly one definition stored', None, lambda: z3.BoolVal(len(ins) == 1))]
            if len(ins) == 1:
                goals += [('C01,C05|new type: stored under the returned id', None, lambda: z3.And(z3.Select(s3['D'], rid), z3.Select(s3['tys'], rid) == P)),
                          ('C01,C05,C11|new type: no existing definition overwritten', None, lambda: z3.BoolVal(not ins[0][1])),
                          ('C01,C05|new type: inserted under the returned id', None, lambda: ins[0][0] == rid)]
            goals += [('C01,C11|guarantee: table only grows', None, lambda: z3.ULE(s0['n'], s3['n']))] \
                + as_goals('C01,C11|guarantee', REL(s0, s3), REL_NAMES) + as_goals('C01,C05,C11|invariant after', INV(s3), INV_NAMES)
            states = [s0, s1, s2, s3]
            terms = {'k': [tid], 'i': [s0['n'], s1['n']], 'd': [rid]}
        if wrong == 'id': goals = [('WRONG: id == n+1', None, lambda: z64(rid) == s0['n'] + 1)]
        if drop is not None: hyps = [h for j, h in enumerate(hyps) if j != drop]
        res = decide(M, hyps, goals, terms, SORTS, closure=closure_for(states), ground=ground)
        failed = [n_ for n_, m, _, _ in res if m is not None]
        if failed: M.emit('cex', what='register_type', cls=cls, failed=failed)
        else: M.emit('ok', cls=cls, conjuncts=[n_ for n_, _, _, _ in res])
    return body


def side_obligations(M):
    """R reflexive and transitive (so any sequence of nested calls satisfies it), quiescent density preserved, closedness at quiescence"""
    a, b, c = state('a'), state('b'), state('c')
    out = []
    # reflexive
    res = decide(M, INV(a), as_goals('C01,C11|R reflexive', REL(a, a), REL_NAMES), {}, SORTS)
    out += res
    # transitive
    hyps = INV(a) + INV(b) + INV(c) + REL(a, b) + REL(b, c)
    res = decide(M, hyps, as_goals('C01,C11|R transitive', REL(a, c), REL_NAMES) + [('C01,C11|R transitive: table only grows', None, lambda: z3.ULE(a['n'], c['n']))], {}, SORTS,
                 ground=[z3.ULE(a['n'], b['n']), z3.ULE(b['n'], c['n'])])
    out += res
    # quiescence: D = [0,n) before  =>  D' = [0,n') after, and every mentioned id resolves
    quies_a = [('d', lambda d: z3.Select(a['D'], d) == z3.ULT(z64(d), a['n']))]
    goals = [('C01|quiescent density preserved: entries are exactly the ids below len', 'd', lambda d: z3.Select(b['D'], d) == z3.ULT(z64(d), b['n'])),
             ('C01|closed at quiescence: every id mentioned in an entry is below len', 'd', lambda d: z3.Implies(z3.Select(b['D'], d), z3.ULE(maxref(z3.Select(b['tys'], d)), b['n'])))]
    res = decide(M, INV(a) + INV(b) + REL(a, b) + quies_a, goals, {}, SORTS, ground=[z3.ULE(a['n'], b['n']), z3.ULT(b['n'], LIMIT)])
    out += res
    return out


def body_side():
    def body(M):
        res = side_obligations(M)
        failed = [n_ for n_, m, _, _ in res if m is not None]
        if failed: M.emit('cex', what='side_obligations', failed=failed)
        else: M.emit('ok', conjuncts=[n_ for n_, _, _, _ in res])
    return body


def body_from_registry(n):
    """From<Registry> for PortableRegistry on a quiescent registry with n entries (ascending-key iteration model)"""
    def body(M):
        tys = z3.Array('tys', U32, Def)
        D = z3.K(U32, z3.BoolVal(False))
        for i in range(n): D = z3.Store(D, bv(i, 32), True)
        types = MapV(D, tys, {'keys': list(range(n)), 'mk_key': lambda kb: [kb, None]})
        reg = [[MapV(None, None), ArrVec(bv(n, 64), z3.Array('data', U64, TID))], types]
        r = M.run_fn(M.resolve('<PortableRegistry as From<Registry>>::from'), [reg])
        from mirsym.models import seq_elems
        ts = seq_elems(M, r[0])
        viol = [z3.BoolVal(len(ts) != n)]
        for i, pt in enumerate(ts[:n]):
            viol.append(pt[0] != i); viol.append(pt[1] != z3.Select(tys, bv(i, 32)))
        if M.check(z3.Or(viol)): M.emit('cex', what='from_registry', n=n)
        else: M.emit('ok', n=n)
    return body


def body_registry_history(n, wrong=False):
    """bounded black-box history on the real Registry (whatever its fields are): Registry::new(), n leaf types with pairwise distinct TypeIds and
    small symbolic definitions (so two definitions MAY coincide), then a re-registration of the j-th type (j symbolic), then From<Registry>"""
    from lib import v14ref
    from mirsym.models import seq_elems
    def body(M):
        M.aux['dictmaps'] = True; M.aux['tid_sort'] = TID
        reg = Cell(M.run_fn(M.resolve('Registry::new'), []))
        tids = [z3.Const('t%d' % i, TID) for i in range(n)]
        if n > 1: M.add(z3.Distinct(tids))
        defs, log = [], []
        for i in range(n + 1):      # one spare definition: a faulty re-registration may evaluate the (n+1)-th MetaType
            if n <= 3:      # definitions may coincide (symbolic): dedup-by-content style bugs; kind: primitive or field-less composite (content-based filters)
                plen = z3.BitVec('plen%d' % i, 64); prim = z3.BitVec('prim%d' % i, 64); kind = z3.BitVec('kind%d' % i, 64)
                M.add(z3.ULE(plen, 1)); M.add(z3.ULT(prim, 3)); M.add(z3.Or(kind == 0, kind == 5)); seg = Tok('seg')
            else:           # long histories: pairwise different concrete definitions (table-size dependent bugs)
                plen, prim, seg, kind = bv(1, 64), bv(i % 15, 64), Tok('seg%d' % i), 5
            pl = {5: [EnumV('TypeDefPrimitive', prim, {k: [] for k in range(15)})]}
            if not isinstance(kind, int): pl[0] = [[VecV(bv(0, 64), [])]]
            defs.append([[VecV(plen, [seg])], VecV(bv(0, 64), []), EnumV('TypeDef', kind, pl), VecV(bv(0, 64), [])])
        def mk_fn(i):
            def f(M):
                log.append(i); return Tok('TYPE%d' % i)
            return f
        def m_into_portable(M, a, c, fr):
            i = int(a[0].name[4:]); return deep_clone(defs[i])
        M.models.insert(0, (re.compile(r'<ty::Type as IntoPortable>::into_portable'), m_into_portable))
        viol = []
        for i in range(n):
            rv = M.run_fn(M.resolve('Registry::register_type'), [Ref(reg), Ref(Cell([mk_fn(i), tids[i]]))])
            viol.append(('C01,C05,C11|id of the %d-th distinct type is %d' % (i, i), rv[0] != i))
        evals_before = list(log)
        tr = z3.Const('tr', TID); M.add(z3.Or([tr == t for t in tids]))
        rv = M.run_fn(M.resolve('Registry::register_type'), [Ref(reg), Ref(Cell([mk_fn(n), tr]))])
        for i in range(n): viol.append(('C05,C11|re-registration returns the id handed out before', z3.And(tr == tids[i], rv[0] != i)))
        viol.append(('C05|re-registration evaluates nothing', z3.BoolVal(log != evals_before)))
        viol.append(('C05|every definition evaluated exactly once', z3.BoolVal(sorted(evals_before) != list(range(n)))))
        pr = M.run_fn(M.resolve('<PortableRegistry as From<Registry>>::from'), [reg.v])
        ts = seq_elems(M, pr[0])
        viol.append(('C01,C05|one entry per distinct type', z3.BoolVal(len(ts) != n)))
        for i, pt in enumerate(ts[:n]):
            viol.append(('C01|entry %d carries id %d' % (i, i), pt[0] != i))
            d = []; v14ref.struct_diff(defs[i], pt[1], z3.BoolVal(True), d)
            viol.append(('C01,C02,C11|entry %d is the definition of the %d-th type' % (i, i), z3.Or([c for _, c in d]) if d else z3.BoolVal(False)))
        if wrong: viol = [('C01,C05,C11|WRONG', z3.BoolVal(True))]
        m = M.model(z3.Or([c for _, c in viol]))
        if m is None: M.emit('ok', conjuncts=sorted({w for w, _ in viol}))
        else: M.emit('cex', what='registry_history', n=n, failed=sorted({w for w, c in viol if z3.is_true(m.eval(c, model_completion=True))})[:6],
                     coincide=[[i, j] for i in range(n) for j in range(i + 1, n) if z3.is_true(m.eval(z3.And(defs[i][0][0].len == defs[j][0][0].len, z3.BoolVal(True) if isinstance(defs[i][2].discr, int) else defs[i][2].discr == defs[j][2].discr, defs[i][2].payloads[5][0].discr == defs[j][2].payloads[5][0].discr), model_completion=True))])
    return body


def body_registry_chain(depth):
    """bounded black-box history with NESTED registration: Registry::new(), then one register_type of a type T0 whose conversion registers T1, whose
    conversion registers T2, ... down to T_depth (a primitive); then From<Registry>.  Ti is a sequence of T(i+1).  Catches behaviour that depends on the
    nesting depth of conversions (recursion guards, deferred work lists) whatever the representation is"""
    from lib import v14ref
    from mirsym.models import seq_elems
    def body(M):
        M.aux['dictmaps'] = True; M.aux['tid_sort'] = TID
        M.max_depth = max(M.max_depth, 12 * depth + 400)
        reg = Cell(M.run_fn(M.resolve('Registry::new'), []))
        tids = [z3.Const('t%d' % i, TID) for i in range(depth + 1)]
        M.add(z3.Distinct(tids))
        log, children = [], {}
        def mk_fn(i):
            def f(M):
                log.append(i); return Tok('TYPE%d' % i)
            return f
        def m_into_portable(M, a, c, fr):
            i = int(a[0].name[4:])
            if i < depth:
                rv = M.run_fn(M.resolve('Registry::register_type'), [a[1], Ref(Cell([mk_fn(i + 1), tids[i + 1]]))])
                children[i] = rv[0]
                td = EnumV('TypeDef', 2, {2: [[[rv[0], None]]]})
            else:
                td = EnumV('TypeDef', 5, {5: [EnumV('TypeDefPrimitive', 3, {k: [] for k in range(15)})]})
            return [[VecV(bv(0, 64), [])], VecV(bv(0, 64), []), td, VecV(bv(0, 64), [])]
        M.models.insert(0, (re.compile(r'<ty::Type as IntoPortable>::into_portable'), m_into_portable))
        rv = M.run_fn(M.resolve('Registry::register_type'), [Ref(reg), Ref(Cell([mk_fn(0), tids[0]]))])
        viol = [('C01,C05,C11|the root gets id 0', rv[0] != 0)]
        pr = M.run_fn(M.resolve('<PortableRegistry as From<Registry>>::from'), [reg.v])
        ts = seq_elems(M, pr[0])
        viol.append(('C01,C02,C05|one entry per type of the chain (%d entries for %d types)' % (len(ts), depth + 1), z3.BoolVal(len(ts) != depth + 1)))
        viol.append(('C05|every definition evaluated exactly once', z3.BoolVal(sorted(log) != list(range(depth + 1)))))
        for i, pt in enumerate(ts[:depth + 1]):
            viol.append(('C01|entry %d carries id %d' % (i, i), pt[0] != i))
            td = pt[1][2]
            if i < depth:
                ok = isinstance(td, EnumV) and td.discr == 2 and i in children
                viol.append(('C01,C02,C11|entry %d is the sequence of the id handed out for its element type' % i, z3.BoolVal(True) if not ok else z3.Or(td.payloads[2][0][0][0] != children[i], children[i] != i + 1)))
            else:
                viol.append(('C01,C02|the innermost entry is the primitive', z3.BoolVal(not (isinstance(td, EnumV) and td.discr == 5))))
        m = M.model(z3.Or([c for _, c in viol]))
        if m is None: M.emit('ok', conjuncts=sorted({w for w, _ in viol})[:12], depth=depth)
        else: M.emit('cex', what='registry_chain', depth=depth, failed=sorted({w for w, c in viol if z3.is_true(m.eval(c, model_completion=True))})[:6])
    return body
