"""Reference encoder / decoder of the V14 registry layout, written from the property text of C06 (no use of the library's derives):

  registry  = compact-length vector of (compact id, type)
  type      = path (vector of strings), parameters (vector of (name string, optional compact id)), definition, docs (vector of strings)
  definition= tag byte 0..7: composite(fields) | variant(variants) | sequence(id) | array(u32 length LE, id) | tuple(vector of ids)
              | primitive(tag byte 0..14) | compact(id) | bit-sequence(store id, order id)          -- ids are compact u32
  field     = optional name, compact id, optional type name, docs          variant = name, fields, u8 index, docs
  string    = compact length + UTF-8 bytes ; optional = 0x00 | 0x01 + value ; vector = compact length + elements

Works on mirsym's value model (python structures with z3 leaves); forks through M.choose where a length or size class is symbolic.
"""
import z3
from mirsym.engine import *


def ref_compact(M, out, v):
    """compact u32: 1 byte for < 2^6, 2 bytes for < 2^14, 4 bytes for < 2^30, else 0x03 + 4 bytes"""
    k = M.choose([z3.ULT(v, 1 << 6), z3.And(z3.UGE(v, 1 << 6), z3.ULT(v, 1 << 14)), z3.And(z3.UGE(v, 1 << 14), z3.ULT(v, 1 << 30)), z3.UGE(v, 1 << 30)], 'ref.compact')
    if k == 0: out.append(z3.Extract(7, 0, v) * 4)
    elif k == 1:
        w = z3.Extract(15, 0, v) * 4 + 1; out += [z3.Extract(7, 0, w), z3.Extract(15, 8, w)]
    elif k == 2:
        w = v * 4 + 2; out += [z3.Extract(7, 0, w), z3.Extract(15, 8, w), z3.Extract(23, 16, w), z3.Extract(31, 24, w)]
    else:
        out.append(bv(3, 8)); out += [z3.Extract(7, 0, v), z3.Extract(15, 8, v), z3.Extract(23, 16, v), z3.Extract(31, 24, v)]


def ref_len(M, out, n): ref_compact(M, out, bv(n, 32))


def vlen(M, v): return M.concrete(v.len, 'ref.len') if isinstance(v, VecV) else len(v.elems)


def ref_abs(M, out, v):
    """vector of symbolic length with opaque elements (length-abstraction harnesses): exact compact length, then one block for the elements"""
    from mirsym.codec_models import AbsElems
    if not isinstance(v, ArrVec): return False
    ref_compact(M, out, z3.Extract(31, 0, v.len)); out.append(AbsElems(v.data, v.len)); return True


def ref_string(M, out, s):
    ref_len(M, out, len(s.elems)); out += list(s.elems)


def ref_strings(M, out, v):
    if ref_abs(M, out, v): return
    n = vlen(M, v); ref_len(M, out, n)
    for s in v.elems[:n]: ref_string(M, out, s)


def is_some(M, o):
    if isinstance(o.discr, int): return o.discr == 1
    return M.concrete_bool(o.discr == 1, 'ref.option')


def ref_opt_string(M, out, o):
    if is_some(M, o): out.append(bv(1, 8)); ref_string(M, out, o.payloads[1][0])
    else: out.append(bv(0, 8))


def ref_id(M, out, sym): ref_compact(M, out, sym[0])


def ref_field(M, out, f):
    ref_opt_string(M, out, f[0]); ref_id(M, out, f[1]); ref_opt_string(M, out, f[2]); ref_strings(M, out, f[3])


def ref_fields(M, out, v):
    if ref_abs(M, out, v): return
    n = vlen(M, v); ref_len(M, out, n)
    for f in v.elems[:n]: ref_field(M, out, f)


def kind_of(M, e, nk, label):
    if isinstance(e.discr, int): return e.discr
    return M.choose([e.discr == k for k in range(nk)], label)


def ref_typedef(M, out, d):
    k = kind_of(M, d, 8, 'ref.kind')
    out.append(bv(k, 8)); p = d.payloads[k]
    if k == 0: ref_fields(M, out, p[0][0])
    elif k == 1:
        vs = p[0][0]
        if ref_abs(M, out, vs): return
        n = vlen(M, vs); ref_len(M, out, n)
        for v in vs.elems[:n]:
            ref_string(M, out, v[0]); ref_fields(M, out, v[1]); out.append(v[2]); ref_strings(M, out, v[3])
    elif k == 2: ref_id(M, out, p[0][0])
    elif k == 3:
        ln = p[0][0]; out += [z3.Extract(7, 0, ln), z3.Extract(15, 8, ln), z3.Extract(23, 16, ln), z3.Extract(31, 24, ln)]; ref_id(M, out, p[0][1])
    elif k == 4:
        fs = p[0][0]
        if ref_abs(M, out, fs): return
        n = vlen(M, fs); ref_len(M, out, n)
        for s in fs.elems[:n]: ref_id(M, out, s)
    elif k == 5: out.append(bv(kind_of(M, p[0], 15, 'ref.prim'), 8))
    elif k == 6: ref_id(M, out, p[0][0])
    elif k == 7: ref_id(M, out, p[0][0]); ref_id(M, out, p[0][1])


def ref_type(M, out, t):
    ref_strings(M, out, t[0][0])
    ps = t[1]
    n = 0 if ref_abs(M, out, ps) else vlen(M, ps)
    if not isinstance(ps, ArrVec): ref_len(M, out, n)
    for p in (ps.elems[:n] if n else []):
        ref_string(M, out, p[0])
        if is_some(M, p[1]): out.append(bv(1, 8)); ref_id(M, out, p[1].payloads[1][0])
        else: out.append(bv(0, 8))
    ref_typedef(M, out, t[2]); ref_strings(M, out, t[3])


def ref_registry(M, reg):
    out = []
    ts = reg[0]
    if ref_abs(M, out, ts): return [b if not z3.is_expr(b) else z3.simplify(b) for b in out]
    n = vlen(M, ts); ref_len(M, out, n)
    for pt in ts.elems[:n]:
        ref_compact(M, out, pt[0]); ref_type(M, out, pt[1])
    return [z3.simplify(b) for b in out]


# ----------------------------------------------------------------------------- reference decoder (exact input; returns value model or None on malformed input)
class Rd:
    def __init__(self, M, bs): self.M, self.b, self.p = M, list(bs), 0
    def byte(self):
        if self.p >= len(self.b): raise EOFError
        x = self.b[self.p]; self.p += 1; return x
    def compact(self):
        b0 = self.byte(); M = self.M
        k = M.choose([b0 & 3 == 0, b0 & 3 == 1, b0 & 3 == 2, b0 & 3 == 3], 'rd.compact')
        if k == 0: return z3.ZeroExt(24, z3.LShR(b0, 2))
        if k == 1: return z3.ZeroExt(16, z3.LShR(z3.Concat(self.byte(), b0), 2))
        if k == 2:
            b1, b2, b3 = self.byte(), self.byte(), self.byte(); return z3.LShR(z3.Concat(b3, b2, b1, b0), 2)
        b1, b2, b3, b4 = self.byte(), self.byte(), self.byte(), self.byte(); return z3.Concat(b4, b3, b2, b1)
    def length(self):
        n = self.compact(); return self.M.concrete(n, 'rd.len', limit=len(self.b) + 2)
    def string(self):
        n = self.length()
        if self.p + n > len(self.b): raise EOFError
        s = ValSlice(self.b[self.p:self.p + n], True); self.p += n; return s
    def strings(self): return VecV(bv(0, 64), []) if False else self.vec(self.string)
    def vec(self, f):
        n = self.length(); xs = [f() for _ in range(n)]; return VecV(bv(n, 64), xs)
    def opt(self, f):
        t = self.byte()
        k = self.M.choose([t == 0, t == 1, z3.UGT(t, 1)], 'rd.opt')
        if k == 2: raise EOFError
        return EnumV('Option', k, {k: ([f()] if k else [])})
    def sym(self): return [self.compact(), None]
    def field(self): return [self.opt(self.string), self.sym(), self.opt(self.string), self.vec(self.string)]
    def variant(self): return [self.string(), self.vec(self.field), self.byte(), self.vec(self.string)]
    def typedef(self):
        t = self.byte()
        k = self.M.choose([t == i for i in range(8)] + [z3.UGT(t, 7)], 'rd.kind')
        if k == 8: raise EOFError
        if k == 0: p = [[self.vec(self.field)]]
        elif k == 1: p = [[self.vec(self.variant)]]
        elif k == 2: p = [[self.sym()]]
        elif k == 3:
            b = [self.byte() for _ in range(4)]; p = [[z3.Concat(b[3], b[2], b[1], b[0]), self.sym()]]
        elif k == 4: p = [[self.vec(self.sym)]]
        elif k == 5:
            t2 = self.byte(); j = self.M.choose([t2 == i for i in range(15)] + [z3.UGT(t2, 14)], 'rd.prim')
            if j == 15: raise EOFError
            p = [EnumV('TypeDefPrimitive', j, {j: []})]
        elif k == 6: p = [[self.sym()]]
        else: p = [[self.sym(), self.sym()]]
        return EnumV('TypeDef', k, {k: p})
    def ty(self):
        path = [self.vec(self.string)]
        params = self.vec(lambda: [self.string(), self.opt(self.sym)])
        return [path, params, self.typedef(), self.vec(self.string)]
    def registry(self):
        return [self.vec(lambda: [self.compact(), self.ty()])]


def ref_decode_registry(M, bs):
    """(value, consumed) or None"""
    r = Rd(M, bs)
    try:
        v = r.registry()
    except EOFError:
        return None
    return v, r.p


# ----------------------------------------------------------------------------- structural comparison of two value models
def struct_diff(a, b, g, out, where=''):
    """appends (where, condition-under-which-a-and-b-differ)"""
    if a is None and b is None: return
    if isinstance(a, Tok) or isinstance(b, Tok):
        if a != b: out.append((where, g))
        return
    if z3.is_expr(a) and z3.is_expr(b):
        out.append((where, z3.And(g, a != b))); return
    if isinstance(a, ValSlice) and isinstance(b, ValSlice):
        if len(a.elems) != len(b.elems): out.append((where + ' len', g)); return
        for i, (x, y) in enumerate(zip(a.elems, b.elems)): struct_diff(x, y, g, out, where)
        return
    if isinstance(a, ArrVec):       # abstract vector: same length, same elements
        if isinstance(b, ArrVec):
            out.append((where + ' len', z3.And(g, a.len != b.len)))
            if not z3.eq(a.data, b.data):
                j = z3.BitVec('j_%s' % where, 64); out.append((where + ' elements', z3.And(g, z3.ULT(j, a.len), z3.Select(a.data, j) != z3.Select(b.data, j))))
        elif isinstance(b, VecV):
            bl = b.len if not isinstance(b.len, int) else bv(b.len, 64)
            out.append((where + ' len', z3.And(g, a.len != bl)))
            for j, y in enumerate(b.elems):
                if not z3.is_expr(y): out.append((where + ' elements', g)); break
                out.append(('%s[%d]' % (where, j), z3.And(g, z3.ULT(bv(j, 64), bl), z3.Select(a.data, bv(j, 64)) != y)))
        else: out.append((where, g))
        return
    if isinstance(a, VecV) and isinstance(b, VecV):
        al = a.len if not isinstance(a.len, int) else bv(a.len, 64); bl = b.len if not isinstance(b.len, int) else bv(b.len, 64)
        out.append((where + ' len', z3.And(g, al != bl)))
        for j, x in enumerate(a.elems):
            gj = z3.And(g, z3.ULT(bv(j, 64), al))
            if j < len(b.elems): struct_diff(x, b.elems[j], gj, out, '%s[%d]' % (where, j))
            else: out.append((where + ' len', gj))
        return
    if isinstance(a, EnumV) and isinstance(b, EnumV):
        ad = a.discr if not isinstance(a.discr, int) else bv(a.discr, 64); bd = b.discr if not isinstance(b.discr, int) else bv(b.discr, 64)
        out.append((where + ' tag', z3.And(g, ad != bd)))
        for k, p in a.payloads.items():
            gk = z3.And(g, ad == bv(k, 64))
            if k in b.payloads: struct_diff(p, b.payloads[k], gk, out, '%s.%d' % (where, k))
            else: out.append((where + ' tag', gk))
        return
    if isinstance(a, list) and isinstance(b, list) and len(a) == len(b):
        for j, (x, y) in enumerate(zip(a, b)): struct_diff(x, y, g, out, '%s.%d' % (where, j))
        return
    out.append((where + ' shape', g))
