"""Deciding obligations with quantified hypotheses by skolemisation + ground instantiation.

A hypothesis is (kind, fn): 'forall x of sort-kind. fn(x)'.  A goal conjunct is (name, kind|None, fn): 'forall x. fn(x)' or ground.
decide() negates one conjunct at a time with a fresh skolem constant, instantiates every hypothesis at all terms of its kind
(given terms + the skolem + optional closure terms) and asks z3.  Using only instances of the hypotheses is sound for 'unsat'
(= the conjunct holds); a 'sat' answer may be spurious and is therefore always confirmed natively before it is reported."""
import z3

_n = [0]


def fresh(kind, sorts):
    _n[0] += 1
    return z3.Const('sk_%s%d' % (kind, _n[0]), sorts[kind])


def decide(M, hyps, conjuncts, terms, sorts, closure=None, ground=()):
    out = []
    for name, kind, fn in conjuncts:
        T = {k: list(v) for k, v in terms.items()}
        if kind is None: f = fn()
        else:
            sk = fresh(kind, sorts); f = fn(sk); T.setdefault(kind, []).append(sk)
        if closure is not None: T = closure(T)
        inst = list(ground)
        for hk, hf in hyps:
            for t in T.get(hk, []): inst.append(hf(t))
        m = M.model(z3.And(inst + [z3.Not(f)]))
        out.append((name, m, inst, f))
    return out
