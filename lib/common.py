"""Plumbing shared by all checks: MIR regeneration, native replay process, harness runner, evidence, verdicts."""
import os, sys, json, time, hashlib, subprocess, collections, random, re, shutil

VERIF = os.path.dirname(os.path.dirname(os.path.abspath(__file__)))
REPO = os.environ.get('VERIF_REPO') or '/repo'
BUILD = os.environ.get('VERIF_BUILD') or os.path.join(VERIF, '.build')
sys.path.insert(0, VERIF)

from mirsym.mir import parse_mir
from mirsym.decls import Decls
from mirsym.engine import Machine, Inconclusive
from mirsym.models import MODELS

FEATURESETS = {
    'default': [],                                             # std
    'serde': ['--features', 'serde,decode'],
    'docs': ['--features', 'docs'],
    'nostd_decode': ['--no-default-features', '--features', 'decode'],
    'bitvec': ['--features', 'bit-vec'],
    'all': ['--features', 'serde,decode,docs,bit-vec'],
}
ENV = dict(os.environ, CARGO_NET_OFFLINE='true')


def crates_root():
    """directory holding the harness crates `replay/` and `kani/`.  Against /repo they are used in place; against another checkout
    (VERIF_REPO: seeded-change evaluation, background runs) a private copy under BUILD is used so that concurrent runs do not disturb each other"""
    if REPO == '/repo': return VERIF
    root = os.path.join(BUILD, 'crates')
    global _crates_synced
    if not _crates_synced:      # once per process: mirror the sources (build output of the copy is kept)
        _crates_synced = True
        os.makedirs(root, exist_ok=True)
        for c in ('replay', 'kani'):
            shutil.copytree(os.path.join(VERIF, c), os.path.join(root, c), ignore=shutil.ignore_patterns('target', '.cargo-lock'), dirs_exist_ok=True)
    return root


_crates_synced = False


def size_threshold(fs='default', files=('interner.rs', 'registry.rs', 'portable.rs'), cap=256):
    """largest integer constant (<= cap) that the code of the table-like structures compares sizes with, read from the current MIR and named consts:
    bounded histories are made longer than it, so that a size threshold in the code (small-table fast paths, spill limits) lies inside the bound"""
    import re
    from mirsym import mir as MIRmod
    fns, _, _ = load_mir(fs)
    best = 0
    for f in list(fns.values()) + [g for gs in getattr(fns, 'instances', {}).values() for g in gs]:
        if not any(x in (f.name + ' ' + ' '.join(f.lines[:1])) for x in files) and not (f.impl and any(f.impl[0].endswith(x) for x in files)): continue
        for ls in f.blocks.values():
            for l in ls:
                for m in re.finditer(r'const (\d+)_(?:usize|u32|u64)', l):
                    v = int(m.group(1))
                    if v <= cap: best = max(best, v)
                for m in re.finditer(r'const (?:[\w:]+::)?([A-Z][A-Z0-9_]+)\b', l):
                    c = MIRmod.NAMED_CONSTS.get(m.group(1))
                    mm = re.match(r'(\d+)_', c or '')
                    if mm and int(mm.group(1)) <= cap: best = max(best, int(mm.group(1)))
    return best


def evidence_dir():
    """/verif/evidence describes runs against /repo only; runs against another checkout (dev: seeded changes, background runs) keep theirs with their build"""
    return os.path.join(VERIF, 'evidence') if REPO == '/repo' else os.path.join(BUILD, 'evidence')


class CheckInconclusive(Exception):
    pass


def sh(cmd, **kw):
    return subprocess.run(cmd, stdout=subprocess.PIPE, stderr=subprocess.PIPE, text=True, env=ENV, **kw)


_mir_cache = {}


def mir_dump(fs='default'):
    """regenerate the MIR text of /repo's working tree for one feature set; returns (path, seconds)"""
    os.makedirs(BUILD, exist_ok=True)
    tdir = os.path.join(BUILD, 'mir-' + fs)
    out = os.path.join(BUILD, 'mir-%s.txt' % fs)
    t0 = time.time()
    env = dict(ENV, CARGO_TARGET_DIR=tdir)
    subprocess.run(['cargo', '+nightly', 'clean', '--offline', '-p', 'scale-info'], cwd=REPO, env=env, stdout=subprocess.DEVNULL, stderr=subprocess.DEVNULL)
    cmd = ['cargo', '+nightly', 'rustc', '--offline', '--lib'] + FEATURESETS[fs] + ['--', '-Zunpretty=mir', '-C', 'debug-assertions=off', '-C', 'overflow-checks=on']
    with open(out + '.tmp', 'w') as f:
        r = subprocess.run(cmd, cwd=REPO, env=env, stdout=f, stderr=subprocess.PIPE, text=True)
    if r.returncode != 0 or os.path.getsize(out + '.tmp') < 1000:
        raise CheckInconclusive('MIR dump failed for feature set %s: %s' % (fs, r.stderr[-800:]))
    os.replace(out + '.tmp', out)
    return out, time.time() - t0


def load_mir(fs='default'):
    if fs not in _mir_cache:
        path, secs = mir_dump(fs)
        fns = parse_mir(path)
        decls = Decls(os.path.join(REPO, 'src'))
        _mir_cache[fs] = (fns, decls, secs)
    return _mir_cache[fs]


def point_crate_at_repo(cargo_toml):
    """the harness crates depend on the repository by path; when VERIF_REPO names another checkout (background runs on a snapshot) rewrite that path"""
    t = open(cargo_toml).read()
    t2 = re.sub(r'(scale-info = \{ path = ")[^"]+(")', lambda m: m.group(1) + REPO + m.group(2), t)
    if t2 != t: open(cargo_toml, 'w').write(t2)


class Native:
    """the replay binary built against /repo's working tree; JSON line protocol"""
    def __init__(self, features=None):
        t0 = time.time()
        tdir = os.path.join(BUILD, 'replay-target' + ('-' + features.replace(',', '_') if features else ''))
        rdir = os.path.join(crates_root(), 'replay')
        shutil.copyfile(os.path.join(REPO, 'Cargo.lock'), os.path.join(rdir, 'Cargo.lock'))
        point_crate_at_repo(os.path.join(rdir, 'Cargo.toml'))
        fl = []
        if features:
            fs_ = [f for f in features.split(',') if f != 'nostd']
            if 'nostd' in features.split(','): fl.append('--no-default-features')
            if fs_: fl += ['--features', ','.join(fs_)]
        r = subprocess.run(['cargo', 'build', '--offline'] + fl, cwd=rdir, env=dict(ENV, CARGO_TARGET_DIR=tdir),
                           stdout=subprocess.PIPE, stderr=subprocess.STDOUT, text=True)
        if r.returncode != 0:
            raise CheckInconclusive('replay binary does not build against the working tree:\n' + r.stdout[-1500:])
        self.build_s = time.time() - t0
        self.bin = os.path.join(tdir, 'debug', 'si-replay')
        self.p = subprocess.Popen([self.bin], stdin=subprocess.PIPE, stdout=subprocess.PIPE, text=True, bufsize=1)
        self.calls = 0

    def ask(self, cmd):
        self.p.stdin.write(json.dumps(cmd) + '\n'); self.p.stdin.flush()
        line = self.p.stdout.readline()
        if not line:
            self.p = subprocess.Popen([self.bin], stdin=subprocess.PIPE, stdout=subprocess.PIPE, text=True, bufsize=1)
            return {'crashed': True}
        self.calls += 1
        return json.loads(line)

    def close(self):
        try:
            self.p.stdin.close(); self.p.wait(timeout=5)
        except Exception:
            self.p.kill()


class Harness:
    """result of one symbolic exploration"""
    def __init__(self, name):
        self.name = name
        self.results, self.stats = [], collections.Counter()
        self.kinds = collections.Counter()
        self.wall = 0.0
        self.fns_mir, self.fns_model = set(), set()


def run_harness(ctx, name, body, fs='default', models=None, subst=(), timeout=None, jobs=None, aux=None):
    """explore body(M) to completion. body must M.emit('ok'|'cex'|..., ...) at every path end."""
    fns, decls, _ = load_mir(fs)
    deadline = time.time() + (timeout or ctx.harness_timeout)
    M = Machine(fns, decls, (models or []) + MODELS, subst=subst, jobs=jobs or ctx.jobs, deadline=deadline)
    if aux: M.aux.update(aux)
    os.makedirs(os.path.join(BUILD, 'results'), exist_ok=True)
    rp = os.path.join(BUILD, 'results', '%s-%s.jsonl' % (ctx.pid, re.sub(r'\W+', '_', name)))
    h = Harness(name)
    t0 = time.time()

    def wrapped(M):
        body(M)
        M.emit('callees', mir=sorted(M.callees_mir), model=sorted(M.callees_model))
    res = M.explore(wrapped, rp)
    h.wall = time.time() - t0
    for r in res:
        k = r['kind']
        if k == 'stats':
            for kk, v in r.items():
                if kk != 'kind': h.stats[kk] += v
            h.stats['processes'] += 1
        elif k == 'callees':
            h.fns_mir.update(r['mir']); h.fns_model.update(r['model'])
        else:
            h.kinds[k] += 1; h.results.append(r)
    ctx.harnesses.append(h)
    if os.environ.get('VERIF_DEBUG'): print('  [harness] %-50s %6.2fs paths=%d queries=%d solver=%.2fs' % (name, h.wall, sum(h.kinds.values()), h.stats.get('queries', 0), h.stats.get('solver_ms', 0) / 1000.0), dict(h.kinds), flush=True)
    bad = [r for r in h.results if r['kind'] in ('inconclusive', 'error', 'timeout', 'uncaught_panic')]
    if bad:
        if any(r['kind'] == 'cex' for r in h.results):
            # undecided paths next to counterexamples: the counterexamples go to the native confirmation (a confirmed one is a violation whatever the
            # undecided paths would have said); nothing is ever reported as holding from this harness
            ctx.undecided = getattr(ctx, 'undecided', []) + ['%s: %d undecided path(s) next to %d counterexample(s)' % (name, len(bad), h.kinds.get('cex', 0))]
            return h
        raise CheckInconclusive('%s: %d undecided path(s); first: %s' % (name, len(bad), json.dumps(bad[0])[:1200]))
    return h


class Ctx:
    def __init__(self, pid, tier, seed):
        self.pid, self.tier, self.seed = pid, tier, seed
        self.rng = random.Random(seed)
        self.jobs = int(os.environ.get('VERIF_JOBS', '14'))
        self.harness_timeout = 900 if tier == 'quick' else 7200
        self.harnesses = []
        self.t0 = time.time()
        self.native = None
        self.natives = {}
        self.violations = []          # (case dict, replay path)
        self.known = []
        self.validated = 0            # translator-validation vectors compared with the native build
        self.samples = []
        self.notes = []
        self.obligations = collections.OrderedDict()   # name -> 'unsat' / 'holds' / ...
        self.assumptions = []
        self.bounds = {}
        self.outside = []

    def get_native(self, features=None):
        if features:
            if features not in self.natives: self.natives[features] = Native(features)
            return self.natives[features]
        if self.native is None: self.native = Native()
        return self.native

    def thorough(self): return self.tier == 'thorough'

    # ---- verdict plumbing
    def report_case(self, case, reproduced, role=None):
        """case: dict describing a concrete counterexample that the native build confirmed (or not)"""
        if not reproduced:
            raise CheckInconclusive('solver model does not reproduce natively (encoding error?): ' + json.dumps(case)[:800])
        kf = match_known(self.pid, case, role)
        if kf is not None:
            if kf['text'] not in [k['text'] for k in self.known]: self.known.append(kf)
            return
        os.makedirs(os.path.join(VERIF, 'replays'), exist_ok=True)
        hsh = hashlib.sha256(json.dumps(case, sort_keys=True).encode()).hexdigest()[:12]
        path = os.path.join(VERIF, 'replays', '%s-%s.json' % (self.pid, hsh))
        with open(path, 'w') as f: json.dump(dict(case, property=self.pid), f, indent=1)
        if path not in [p for _, p in self.violations]: self.violations.append((case, path))


def load_known():
    p = os.path.join(VERIF, 'known_findings.json')
    if not os.path.exists(p): return {'findings': [], 'fixed': []}
    return json.load(open(p))


def match_known(pid, case, role):
    for k in load_known().get('findings', []):
        if k['property'] == pid and role is not None and k.get('role') == role:
            return k
    return None


def fn_hashes(fns, names):
    out = {}
    for n in sorted(names):
        f = fns.get(n)
        if f is not None: out[n] = f.sha
    return out


def finish(ctx, level, explanation, extra_cov=None, rule=None):
    """write evidence and print the verdict; returns exit code"""
    if getattr(ctx, 'undecided', None) and not ctx.violations:
        raise CheckInconclusive('undecided paths and no confirmed violation: ' + '; '.join(ctx.undecided)[:1200])
    wall = time.time() - ctx.t0
    tot = collections.Counter()
    paths = 0
    per_h = []
    mir_names, model_names = set(), set()
    for h in ctx.harnesses:
        tot.update(h.stats)
        n = sum(v for k, v in h.kinds.items())
        paths += n
        per_h.append({'harness': h.name, 'paths': n, 'path_end_kinds': dict(h.kinds), 'queries': h.stats.get('queries', 0),
                      'solver_s': round(h.stats.get('solver_ms', 0) / 1000.0, 2), 'forks': h.stats.get('forks', 0), 'wall_s': round(h.wall, 2)})
        mir_names |= h.fns_mir; model_names |= h.fns_model
    hashes = {}
    for fs, (fns, _, _) in _mir_cache.items():
        for n, s in fn_hashes(fns, mir_names).items(): hashes['%s:%s' % (fs, n)] = s
    cov = {
        'states': max(paths, 1), 'transitions': max(int(tot.get('forks', 0)) + paths, 1),
        'traces_validated_against_impl': ctx.validated,
        'samples': ctx.samples[:12] or [{'note': 'no path samples recorded'}],
        'explanation': explanation,
        'exhaustive': False,
        'engine': 'mirsym (MIR -> z3 %s, one process per path) on MIR regenerated from %s this run' % (__import__('z3').get_version_string(), REPO),
        'functions_encoded': hashes,
        'std_models_used': sorted(model_names),
        'trusted_base': sorted(model_names) + ['z3 4.8.12 (python bindings of the tooling venv)', 'rustc nightly -Zunpretty=mir', 'mirsym interpreter'],
        'bounds': ctx.bounds, 'outside_the_claim': ctx.outside,
        'harnesses': per_h,
        'queries_discharged': int(tot.get('queries', 0)), 'solver_time_s': round(tot.get('solver_ms', 0) / 1000.0, 2),
        'obligations': len(ctx.obligations), 'discharged': sum(1 for v in ctx.obligations.values() if v in ('unsat', 'holds')),
        'obligation_list': [{'name': k, 'verdict': v} for k, v in ctx.obligations.items()][:400],
        'checker_cmd': './check %s --tier %s' % (ctx.pid, ctx.tier),
        'known_findings_reported': [k['text'] for k in ctx.known],
        'notes': ctx.notes,
    }
    if rule: cov['rule'] = rule
    if extra_cov: cov.update(extra_cov)
    ev = {'property_id': ctx.pid, 'tier': ctx.tier, 'seed': ctx.seed, 'level': level, 'coverage': cov,
          'assumptions': ctx.assumptions, 'wall_s': round(wall, 2), 'violations': len(ctx.violations)}
    os.makedirs(evidence_dir(), exist_ok=True)
    with open(os.path.join(evidence_dir(), ctx.pid + '.json'), 'w') as f:
        json.dump(ev, f, indent=1, default=str)
    for k in ctx.known:
        print('KNOWN-FINDING: property=%s %s' % (ctx.pid, k['text']))
    for case, path in ctx.violations:
        print('VIOLATION property=%s replay=%s' % (ctx.pid, path))
    if ctx.violations: return 1
    ks = getattr(ctx, 'kani', [])
    print('%s %s: holds within bounds; %d mirsym harnesses, %d paths, %d queries, solver %.1fs; %d kani harnesses (%.1fs solver); wall %.1fs' % (
        ctx.pid, ctx.tier, len(ctx.harnesses), paths, tot.get('queries', 0), tot.get('solver_ms', 0) / 1000.0, len(ks), sum((r.get('solver_s') or 0) for r in ks), wall))
    return 0


def write_inconclusive(ctx, why):
    wall = time.time() - ctx.t0
    ev = {'property_id': ctx.pid, 'tier': ctx.tier, 'seed': ctx.seed, 'level': 'other',
          'coverage': {'explanation': 'INCONCLUSIVE - no verdict: ' + why[:3000], 'evaluations': 1, 'distinct_nontrivial': 0},
          'assumptions': [], 'wall_s': round(wall, 2), 'violations': 0}
    os.makedirs(evidence_dir(), exist_ok=True)
    with open(os.path.join(evidence_dir(), ctx.pid + '.json'), 'w') as f: json.dump(ev, f, indent=1)
    print('INCONCLUSIVE property=%s: %s' % (ctx.pid, why[:3000]))
