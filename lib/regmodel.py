"""Symbolic PortableRegistry values in mirsym's value model (shared by C01, C06, C07, C10, C14) and their concretisation
to the JSON case format understood by the native replay binary.

Layout (field order as declared in /repo/src, read by the declaration scanner at run time and asserted here):
  PortableRegistry [types: Vec<PortableType>]      PortableType [id: u32, ty: Type]
  Type [path, type_params, type_def, docs]          Path [segments]            TypeParameter [name, ty: Option<Sym>]
  Sym (UntrackedSymbol) [id: u32, marker]           Field [name: Option, ty: Sym, type_name: Option, docs]
  Variant [name, fields, index: u8, docs]           TypeDef::{Composite([fields]), Variant([variants]), Sequence([tp]), Array([len, tp]),
                                                             Tuple([fields]), Primitive(prim), Compact([tp]), BitSequence([store, order])}
"""
import z3
from mirsym.engine import *

KINDS = ['Composite', 'Variant', 'Sequence', 'Array', 'Tuple', 'Primitive', 'Compact', 'BitSequence']
PRIMS = ['Bool', 'Char', 'Str', 'U8', 'U16', 'U32', 'U64', 'U128', 'U256', 'I8', 'I16', 'I32', 'I64', 'I128', 'I256']
EXPECTED_DECLS = {'PortableRegistry': ['types'], 'PortableType': ['id', 'ty'], 'Type': ['path', 'type_params', 'type_def', 'docs'], 'Path': ['segments'],
                  'TypeParameter': ['name', 'ty'], 'UntrackedSymbol': ['id', 'marker'], 'Field': ['name', 'ty', 'type_name', 'docs'],
                  'Variant': ['name', 'fields', 'index', 'docs'], 'TypeDefArray': ['len', 'type_param'], 'TypeDefBitSequence': ['bit_store_type', 'bit_order_type'],
                  'TypeDefComposite': ['fields'], 'TypeDefVariant': ['variants'], 'TypeDefSequence': ['type_param'], 'TypeDefTuple': ['fields'], 'TypeDefCompact': ['type_param']}


def check_decls(decls, M=None):
    """the value layout above is canonical; a different declared field ORDER is handled by the engine (projections / aggregates are remapped),
    a different set of fields or variants makes the run inconclusive"""
    if M is not None: M.install_layout(EXPECTED_DECLS)
    else:
        for k, v in EXPECTED_DECLS.items():
            if sorted(decls.structs.get(k) or []) != sorted(v): raise Inconclusive('declaration of %s changed: %s (regmodel expects %s)' % (k, decls.structs.get(k), v))
    if [v for v, _ in decls.enums.get('TypeDef', [])] != KINDS: raise Inconclusive('TypeDef variants changed')
    if [v for v, _ in decls.enums.get('TypeDefPrimitive', [])] != PRIMS: raise Inconclusive('TypeDefPrimitive variants changed')


def is_sym(v): return isinstance(v, list) and len(v) == 2 and v[1] is None and z3.is_bv(v[0]) and v[0].size() == 32


class RegBuilder:
    """builds a symbolic registry; every choice can be pinned by a template"""
    def __init__(self, n, vec_cap=1, param_cap=1, tag='r', idbound=None, strings='tok', template=None, full_ids=False):
        self.n, self.vec_cap, self.param_cap, self.tag = n, vec_cap, param_cap, tag
        self.cons, self.cnt = [], 0
        self.idbound = n if idbound is None else idbound
        self.template = template          # list per entry: dict(kind=.., nparams=.., lens=[..]) or None
        self.full_ids = full_ids
        self.strings = strings
        self.ids = []                     # all symbolic id terms, for statistics

    def fresh(self, name, w):
        self.cnt += 1
        return z3.BitVec('%s_%s%d' % (self.tag, name, self.cnt), w)

    def tok(self, name):
        self.cnt += 1
        if self.strings == 'tok': return Tok('%s%d' % (name, self.cnt))
        return self.strings(self, name)

    def sym(self):
        v = self.fresh('id', 32)
        if not self.full_ids: self.cons.append(z3.ULT(v, self.idbound))
        self.ids.append(v)
        return [v, None]

    def vec(self, mk, cap=None, fixed=None):
        cap = self.vec_cap if cap is None else cap
        if fixed is not None: return VecV(bv(fixed, 64), [mk() for _ in range(fixed)])
        ln = self.fresh('len', 64); self.cons.append(z3.ULE(ln, cap))
        return VecV(ln, [mk() for _ in range(cap)])

    def opt(self, mk, fixed=None):
        if fixed is not None: return EnumV('Option', 1 if fixed else 0, {1: [mk()]} if fixed else {0: []})
        d = self.fresh('opt', 64); self.cons.append(z3.ULT(d, 2))
        return EnumV('Option', d, {0: [], 1: [mk()]})

    def docs(self): return VecV(bv(0, 64), []) if self.strings == 'tok' else self.vec(lambda: self.tok('doc'), cap=1)

    def field(self):
        return [self.opt(lambda: self.tok('fname')), self.sym(), self.opt(lambda: self.tok('tname')), self.docs()]

    def variant(self, nfields=None):
        return [self.tok('vname'), self.vec(self.field, fixed=nfields), self.fresh('vidx', 8), self.docs()]

    def tparam(self):
        return [self.tok('pname'), self.opt(self.sym)]

    def typedef(self, t=None):
        t = t or {}
        lens = list(t.get('lens', []))
        def nxt(): return lens.pop(0) if lens else None
        payloads = {
            0: lambda: [[self.vec(self.field, fixed=nxt())]],
            1: lambda: [[self.vec(lambda: self.variant(nxt() if t.get('kind') is not None else None), fixed=nxt())]],
            2: lambda: [[self.sym()]],
            3: lambda: [[self.fresh('alen', 32), self.sym()]],
            4: lambda: [[self.vec(self.sym, fixed=nxt())]],
            5: lambda: [self.prim()],
            6: lambda: [[self.sym()]],
            7: lambda: [[self.sym(), self.sym()]],
        }
        if t.get('kind') is not None:
            k = t['kind']
            if k == 1:
                nv = nxt()
                nv = self.vec_cap if nv is None else nv
                vs = [self.variant(nxt()) for _ in range(nv)]
                return EnumV('TypeDef', 1, {1: [[VecV(bv(nv, 64), vs)]]})
            return EnumV('TypeDef', k, {k: payloads[k]()})
        d = self.fresh('kind', 64); self.cons.append(z3.ULT(d, 8))
        return EnumV('TypeDef', d, {k: payloads[k]() for k in range(8)})

    def prim(self):
        d = self.fresh('prim', 64); self.cons.append(z3.ULT(d, 15))
        return EnumV('TypeDefPrimitive', d, {k: [] for k in range(15)})

    def path(self):
        if self.strings == 'tok': return [VecV(bv(0, 64), [])]
        return [self.vec(lambda: self.tok('seg'), cap=1)]

    def ty(self, t=None):
        t = t or {}
        return [self.path(), self.vec(self.tparam, cap=self.param_cap, fixed=t.get('nparams')), self.typedef(t), self.docs()]

    def ptype(self, i, t=None, symbolic_id=False):
        pid = self.fresh('pid', 32) if symbolic_id else bv(i, 32)
        return [pid, self.ty(t)]

    def registry(self, symbolic_ids=False):
        ts = self.template or [None] * self.n
        return [VecV(bv(self.n, 64), [self.ptype(i, ts[i], symbolic_ids) for i in range(self.n)])]


def snapshot(v):
    if isinstance(v, list): return [snapshot(x) for x in v]
    if isinstance(v, EnumV): return EnumV(v.enum, v.discr, {k: snapshot(p) for k, p in v.payloads.items()})
    if isinstance(v, VecV): return VecV(v.len, [snapshot(x) for x in v.elems])
    return v


# ----------------------------------------------------------------------------- reference relation: references of an entry (symbolic)
def refs_of_type(ty):
    """list of (guard, id term) for every reference slot of a Type value (guards: kind / length / Some conditions)"""
    out = []
    params, tdef = ty[1], ty[2]
    def inb(j, ln): return z3.ULT(bv(j, 64), ln) if not isinstance(ln, int) else z3.BoolVal(j < ln)
    def isk(e, k): return (e.discr == bv(k, 64)) if not isinstance(e.discr, int) else z3.BoolVal(e.discr == k)
    for j, p in enumerate(params.elems):
        o = p[1]
        if 1 in o.payloads: out.append((z3.And(inb(j, params.len), isk(o, 1)), o.payloads[1][0][0]))
    pl = tdef.payloads
    if 0 in pl:
        fs = pl[0][0][0]
        for j, f in enumerate(fs.elems): out.append((z3.And(isk(tdef, 0), inb(j, fs.len)), f[1][0]))
    if 1 in pl:
        vs = pl[1][0][0]
        for a, v in enumerate(vs.elems):
            for j, f in enumerate(v[1].elems): out.append((z3.And(isk(tdef, 1), inb(a, vs.len), inb(j, v[1].len)), f[1][0]))
    if 2 in pl: out.append((isk(tdef, 2), pl[2][0][0][0]))
    if 3 in pl: out.append((isk(tdef, 3), pl[3][0][1][0]))
    if 4 in pl:
        fs = pl[4][0][0]
        for j, s in enumerate(fs.elems): out.append((z3.And(isk(tdef, 4), inb(j, fs.len)), s[0]))
    if 6 in pl: out.append((isk(tdef, 6), pl[6][0][0][0]))
    if 7 in pl:
        out.append((isk(tdef, 7), pl[7][0][0][0])); out.append((isk(tdef, 7), pl[7][0][1][0]))
    return out


def reachable(reg, keep, n):
    """reach[i] after n rounds of closure over the symbolic reference relation, starting from keep"""
    types = reg[0].elems[:n]
    refs = [refs_of_type(t[1]) for t in types]
    reach = [z3.Select(keep, bv(i, 32)) for i in range(n)]
    for _ in range(n):
        nxt = []
        for i in range(n):
            via = [z3.And(reach[j], g, idt == i) for j in range(n) for g, idt in refs[j]]
            nxt.append(z3.Or([reach[i]] + via))
        reach = nxt
    return reach


# ----------------------------------------------------------------------------- concretisation for native replay
def concretize(m, v):
    """model m, registry-ish value v -> JSON-able structure (lists/dicts/ints/strings)"""
    def ev(t):
        r = m.eval(t, model_completion=True)
        if z3.is_bv_value(r): return r.as_long()
        return z3.is_true(r)
    def go(x):
        if x is None: return None
        if isinstance(x, Tok): return x.name
        if z3.is_expr(x): return ev(x)
        if isinstance(x, ValSlice): return {'bytes': [ev(b) for b in x.elems]}
        if isinstance(x, VecV):
            n = x.len if isinstance(x.len, int) else ev(x.len)
            return [go(e) for e in x.elems[:n]]
        if isinstance(x, EnumV):
            d = x.discr if isinstance(x.discr, int) else ev(x.discr)
            return {'variant': d, 'enum': x.enum, 'fields': [go(e) for e in x.payloads.get(d, [])]}
        if isinstance(x, list): return [go(e) for e in x]
        return str(x)
    return go(v)


def reg_to_case(m, reg):
    """registry value -> the replay binary's registry JSON"""
    c = concretize(m, reg)
    def sym(s): return s[0]
    def opt(o, f=lambda x: x): return f(o['fields'][0]) if o['variant'] == 1 else None
    def field(f): return {'name': opt(f[0]), 'ty': sym(f[1]), 'type_name': opt(f[2]), 'docs': f[3]}
    def tdef(d):
        k, p = d['variant'], d['fields']
        if k == 0: return {'composite': [field(f) for f in p[0][0]]}
        if k == 1: return {'variant': [{'name': v[0], 'fields': [field(f) for f in v[1]], 'index': v[2], 'docs': v[3]} for v in p[0][0]]}
        if k == 2: return {'sequence': sym(p[0][0])}
        if k == 3: return {'array': [p[0][0], sym(p[0][1])]}
        if k == 4: return {'tuple': [sym(s) for s in p[0][0]]}
        if k == 5: return {'primitive': p[0]['variant']}
        if k == 6: return {'compact': sym(p[0][0])}
        if k == 7: return {'bitsequence': [sym(p[0][0]), sym(p[0][1])]}
    out = []
    for pt in c[0]:
        ty = pt[1]
        out.append({'id': pt[0], 'path': ty[0][0], 'params': [{'name': p[0], 'ty': opt(p[1], sym)} for p in ty[1]], 'def': tdef(ty[2]), 'docs': ty[3]})
    return out


def string_variants(types):
    """realisations of the opaque strings of a counterexample for the native replay: the solver leaves the CONTENT of a string free (only
    uninterpreted predicates over it are constrained), so the replay tries the token names and a few degenerate contents"""
    import copy
    def mapped(f_doc, f_other):
        t2 = copy.deepcopy(types)
        def docs(xs): return [f_doc(x) for x in xs]
        def field(f):
            f['docs'] = docs(f['docs'])
            for k in ('name', 'type_name'):
                if f.get(k) is not None: f[k] = f_other(f[k])
        for t in t2:
            t['docs'] = docs(t['docs']); t['path'] = [f_other(x) for x in t['path']]
            for p in t['params']: p['name'] = f_other(p['name'])
            d = t['def']
            for f in d.get('composite', []): field(f)
            for v in d.get('variant', []):
                v['docs'] = docs(v['docs']); v['name'] = f_other(v['name'])
                for f in v['fields']: field(f)
        return t2
    ident = lambda x: x
    yield 'token names', types
    for label, fd, fo in (('docs empty strings', lambda x: '', ident), ('docs blank', lambda x: '  ', ident), ('docs with surrounding space', lambda x: ' ' + x + ' ', ident),
                          ('all strings empty', lambda x: '', lambda x: ''), ('all strings with surrounding space', lambda x: ' ' + x + ' ', lambda x: ' ' + x + ' '),
                          ('all strings upper case', lambda x: x.upper(), lambda x: x.upper()), ('all strings non-ascii', lambda x: x + '\u00e9\u4e16', lambda x: x + '\u00e9\u4e16'),
                          ('names with a raw-identifier prefix', ident, lambda x: 'r#' + x)):
        yield label, mapped(fd, fo)


def pin_to_model(M, m, v):
    """constrain every symbolic leaf of a value to its value in model m (turns a symbolic registry into one concrete registry)"""
    def go(x):
        if isinstance(x, list):
            for y in x: go(y)
        elif isinstance(x, VecV):
            if not isinstance(x.len, int) and not z3.is_bv_value(x.len): M.add(x.len == m.eval(x.len, model_completion=True))
            for y in x.elems: go(y)
        elif isinstance(x, ValSlice):
            for b in x.elems: go(b)
        elif isinstance(x, EnumV):
            if not isinstance(x.discr, int) and not z3.is_bv_value(x.discr): M.add(x.discr == m.eval(x.discr, model_completion=True))
            for p in x.payloads.values(): go(p)
        elif z3.is_expr(x) and not z3.is_bv_value(x) and not z3.is_true(x) and not z3.is_false(x):
            M.add(x == m.eval(x, model_completion=True))
    go(v)
