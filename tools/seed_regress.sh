#!/bin/bash
# dev tool: every kept seeded change against the check of its property (isolated scratch worktrees; /repo untouched). usage: seed_regress.sh [parallel=2]
cd "$(dirname "$0")/.."
par=${1:-2}
mkdir -p /tmp/ft/regress
ls -d seeded/*/ | while read d; do
  d=${d%/}; n=$(basename $d)
  id=$(python3 -c "import json;print(json.load(open('$d/meta.json'))['property'])")
  echo "$d $id"
done | xargs -P $par -L 1 bash -c 'd=$0; id=$1; n=$(basename $d); if [ -f $d/demo.rs ]; then tools/seed_eval.sh $d $id > /tmp/ft/regress/$n.log 2>&1; else w=$(tools/seed_wt.sh $d rg-$n); VERIF_REPO=$w VERIF_BUILD=$w-build ./check $id > /tmp/ft/regress/$n.log 2>&1; sed -i "s/^/check $id: /" /tmp/ft/regress/$n.log; git -C /repo worktree remove --force $w; rm -rf $w-build; fi; echo "$n: $(grep -a "^check" /tmp/ft/regress/$n.log | grep -o "VIOLATION property=[A-Z0-9]*\|holds within bounds\|INCONCLUSIVE" | head -1)"'
