#!/usr/bin/env python3
"""(re)generates /verif/MANIFEST.json from the table below; run after adding or changing a check."""
import json, os
V = os.path.dirname(os.path.dirname(os.path.abspath(__file__)))
props = [json.loads(l) for l in open(os.path.join(V, 'properties.jsonl'))]
TECH = 'SMT-based bounded symbolic execution of rustc MIR (mirsym + z3); counterexamples replayed natively'
CHECKS = {
 'C18': dict(engine='mirsym', category='model_checking', design='DESIGN.md §6 C18',
   text="Bounded symbolic execution of the real MIR of is_rust_identifier, Path::from_segments, Path::new, Path::new_with_replace and the accessors: every byte of every string up to the stated lengths is a solver variable and z3 refutes 'path condition and not oracle' on every path; oracles are written independently from the property text (regex as DFA, separator recurrence).",
   note="Trusted: mirsym interpreter and its std models (str::split, trim_start_matches/strip_prefix, slice iterators, Option/Result combinators), validated every run against the native build on the repo's test literals and seeded random strings; z3. Bounds: see evidence.bounds.",
   technique=TECH),
 'C12': dict(engine='mirsym', category='other', design='DESIGN.md §6 C12',
   text="Inductive step per operation executed from the MIR of Interner<T> and PortableRegistryBuilder: the pre-state is an arbitrary table (z3 arrays) constrained only by the representation invariant, one operation with symbolic arguments runs, and z3 refutes the negation of each conjunct of the duplicate-free-list specification and of the invariant; one step covers histories of any length below 2^32 entries. Plus finish unrolled (n<=4/6) and bounded histories against a list model. Not called a proof: invariant, interpreter and models are not machine-checked.",
   note="Assumes Ord on the element type is a total order consistent with == (BTreeMap modelled as a partial function); quantified invariant used through ground instances (sound for 'holds', counterexamples are confirmed natively); len < 2^32.",
   technique='SMT-discharged inductive step (arbitrary pre-state under a representation invariant) over symbolically executed MIR; z3'),
}
CHECKS['C10'] = dict(engine='mirsym', category='model_checking', design='DESIGN.md §6 C10',
   text="Bounded symbolic execution of the real MIR of PortableRegistry::retain/retain_type over symbolic well-formed registries: all 8 definition kinds, vector lengths, Option tags, every reference id and the filter predicate are solver variables (exhaustive for n<=2 entries; seeded shape templates with symbolic ids and filter for n=3,4). On every path z3 refutes each way the property can fail: result not dense/closed, map keys != reachable set (unrolled closure over the symbolic reference relation of the original), map not a bijection onto the new ids, retained entry != original with ids renamed. Recursion/step budgets turn non-termination into a natively confirmed violation.",
   note="Symbolic indices are resolved by solver-guided case splitting (each feasible value forks). Names/docs are opaque tokens. Trusted: mirsym + std models (Vec, slice IterMut, BTreeMap<u32,u32> as arrays, mem::replace, Range<u32>), validated each run against native retain on seeded concrete registries (same map, same result). Bounds in evidence.bounds.",
   technique=TECH)
CHECKS['C16'] = dict(engine='mirsym', category='model_checking', design='DESIGN.md §6 C16',
   text="Symbolic execution of the MIR of MetaType's PartialEq, Ord, PartialOrd, Hash, type_id, is_phantom and new over all pairs of 128-bit type ids with independent opaque function pointers; z3 refutes the negation of each law (eq <=> same id, cmp is the id order and consistent with eq, partial_cmp == Some(cmp), hash feeds the id only). Coherence: every impl TypeInfo of the crate whose Identity differs from Self is executed and must be a single forwarding call returning <Identity as TypeInfo>::type_info() unchanged; PhantomData<T>'s body must not mention T.",
   note="TypeId modelled as an opaque 128-bit value (==, total order, hash feeds that value); injectivity of TypeId::of is rustc's guarantee. TypeInfo impls outside the crate are outside the claim (the derive always emits Identity = Self).",
   technique=TECH)
STEP_NOTE = "Quantified hypotheses (representation invariant, rely condition) are used through ground instances at the relevant terms - sound for 'unsat'; a failed obligation is reported only when a native registration history reproduces a violation. into_portable bodies are assumed to touch the registry only through register_type/register_types/map_into_portable (call-log obligation of C02). len < 2^32."
CHECKS['C01'] = dict(engine='mirsym', category='other', design='DESIGN.md §6 C01',
   text="Inductive rely/guarantee step of Registry::register_type executed from its MIR (register_type, intern_type_id, Interner::intern_or_get, MetaType::type_id/type_info): arbitrary pre-state as z3 arrays under the representation invariant, nested conversion havocked under the rely condition; z3 discharges every conjunct of the guarantee and of the invariant, the side obligations (R reflexive, transitive; density and closedness at quiescence), From<Registry> and builder finish unrolled (n<=4/6), and the retain exploration of C10 (exhaustive n<=2) for 'result well-formed'. One step covers histories of any length below 2^32 types. Not called a proof.",
   note=STEP_NOTE + " Decoding its own output (producer d) follows from C07.", technique='SMT-discharged inductive rely/guarantee step over symbolically executed MIR + bounded symbolic execution (retain, From, finish); z3')
CHECKS['C05'] = dict(engine='mirsym', category='other', design='DESIGN.md §6 C05',
   text="(1) The register_type step of C01(a) restricted to deduplication: a present TypeId returns the existing id, changes nothing, evaluates nothing; an absent one gets exactly one entry evaluated exactly once. (2) Identity algebra: the Identity declaration of every impl TypeInfo is read from the source into a recursive z3 function over an algebraic datatype of type expressions; z3 decides for all type expressions (any nesting where unfolding suffices, else depth<=4/6) that wrappers resolve to their target, Vec/VecDeque/&[T] to [T], String to str, all PhantomData to one identity, and that different generic arguments or constructors never merge.",
   note=STEP_NOTE + " MetaType::new stores TypeId::of::<T::Identity>() (checked from MIR in C16); TypeId::of injective (rustc).", technique='SMT: inductive step over symbolically executed MIR + z3 algebraic-datatype reasoning over the extracted Identity declarations')
CHECKS['C11'] = dict(engine='mirsym', category='other', design='DESIGN.md §6 C11',
   text="Stability of ids and definitions is the guarantee of the register_type step (executed from MIR from an arbitrary pre-state): interned prefix kept, existing definitions unchanged, closed under sequencing because the relation is proved reflexive and transitive by z3. Byte-identical replay: registration is executed by a deterministic interpreter and the MIR call graph of registry/interner/portable/meta_type/ty is scanned for nondeterministic APIs. Order independence up to renaming is derived (first-visit numbering, C16, C02) and only cross-checked natively on permutations of a type corpus.",
   note=STEP_NOTE + " The permutation statement is not solver-decided over MIR (stated in evidence.outside_the_claim).", technique='SMT-discharged inductive step over symbolically executed MIR; z3')
CHECKS['C02'] = dict(engine='mirsym', category='model_checking', design='DESIGN.md §6 C02',
   text="Bounded symbolic execution of the MIR of <Type as IntoPortable>::into_portable and every nested IntoPortable impl (TypeParameter, TypeDef and its seven payload structs, Field, Variant, Path, &'static str) on a symbolic MetaForm type: kind, primitive, presence of every Option, every vector length within the bound, array length and variant index are solver variables; strings and MetaTypes are opaque; Registry::register_type is an uninterpreted function id_of with a call log. On every path z3 refutes any difference between the output and the structural image of the input (MetaType m -> id_of(m), nothing else changed). Combined with C01(a) this yields the property by induction on the reference structure.",
   note="Termination of registration on cyclic type graphs is argued (known-type case of C01(a)) and exercised natively on recursive/mutually recursive types, not solver-decided. register_type's real behaviour is C01(a)/C05. Counterexamples are confirmed by the native faithful-image battery (hand-written and derived types incl. docs, type names, BitVec).",
   technique=TECH)
CHECKS['C17'] = dict(engine='mirsym', category='model_checking', design='DESIGN.md §6 C17',
   text="Symbolic execution of the MIR of every builder method (TypeBuilder, Fields/FieldsBuilder, FieldBuilder incl. ty/compact, Variants, VariantBuilder, TypeDefTuple::new, MetaType::new/is_phantom) along seeded typestate-valid call skeletons (setter order, optional and repeated setters, closures whose bodies are driver-chosen setter sequences). Arguments are symbolic: strings opaque, index u8 and discriminant u64 bit-vectors, every field's TypeId a free 128-bit variable so the solver decides whether a member is the PhantomData identity. Oracle: the built Type holds exactly what was supplied, in order, minus PhantomData members; docs(..) kept iff the MIR was dumped with the docs feature, docs_always(..) always. Run on MIR dumped with docs off and on.",
   note="The skeleton dimension is seeded (30 quick / 120 thorough per shape and feature set), not exhaustive; portable builders (field_portable, docs_portable) are covered only by the native battery. Counterexamples are confirmed by a native builder battery built with and without the docs feature.",
   technique=TECH)
CODEC_NOTE = "Codec primitives (u8, u32, Compact<u32>, Option tag, Vec/String length+elements, UTF-8 validity, error behaviour) are modelled in mirsym/codec_models.py; the derived impls are executed from MIR. The models are validated every run against the real crate on concrete registries / byte strings, and the scalar ones are proved equal to the real codec for all inputs by Kani harnesses (kani/src/leaves.rs)."
CHECKS['C06'] = dict(engine='kani+mirsym', category='model_checking', design='DESIGN.md §6 C06',
   text="Engine K: Kani/CBMC differential harnesses on the compiled crate with the real parity-scale-codec: for every layout node the library's encode_to (into a fixed-array Output) equals a reference encoder written from the layout text, for all scalar contents (ids over the full u32 range incl. the compact class boundaries, raw LE array length, u8 index, all 15 primitive tags); string/vector nodes one harness per concrete shape. Engine M: the derived Encode MIR of whole symbolic registries (every kind, presence, lengths, ids across all compact classes, string bytes) is compared bytewise with an independent Python reference encoder and an independent reference decoder must read the value back.",
   note=CODEC_NOTE + " Vectors of structs on the real codec are out of CBMC's reach (composite with one field > 300 s): their composition is decided in engine M only. The library decoder on reference-encoded input follows from byte equality and C07.",
   technique='Kani/CBMC bounded model checking of the compiled crate (differential vs reference encoder) + SMT-based symbolic execution of MIR (mirsym + z3)')
CHECKS['C07'] = dict(engine='mirsym+kani', category='model_checking', design='DESIGN.md §6 C07',
   text="Bounded symbolic execution of the derived Encode MIR of a symbolic PortableRegistry into bytes and of the derived Decode MIR on those bytes: per path z3 refutes an Err result, any field difference between decoded and original value, and inexact consumption. Symbolic: definition kind, presence, vector lengths, ids over the full u32 range (all compact classes), array length, index, string bytes; ids need not be dense. Injectivity is a corollary of the round trip; determinism is functional purity of the interpreted encode. Scalar leaves round-trip on the real codec in the Kani harnesses run under C14/C06.",
   note=CODEC_NOTE + " That parity-scale-codec's own Vec/String/Option implementations round-trip is modelled, not checked.", technique=TECH)
CHECKS['C08'] = dict(engine='mirsym', category='model_checking', design='DESIGN.md §6 C08',
   text="SHAPE ONLY: bounded symbolic execution of the MIR of the derived Serialize impls (feature serde) with a tree-building model of serde's Serializer/SerializeStruct, so keys, lower-case tags, transparency and skip_serializing_if branches are read from the derive's real output; per path the produced document is compared with the documented shape (reference built from the property text), leaves by z3. The round-trip half of C08 (Deserialize) is NOT claimed: it is only exercised natively through serde_json on a corpus as a sanity run.",
   note="Claim is at the serde data-model level (keys, tags, presence; key order irrelevant); serde_json's text layer and arbitrary unicode are outside; strings are opaque tokens.", technique=TECH)
CHECKS['C14'] = dict(engine='mirsym+kani', category='model_checking', design='DESIGN.md §6 C14',
   text="PARTIAL: (1) the derived Decode MIR of PortableRegistry and of each inner node is executed on buffers whose every byte is a solver variable, for every length up to the bound: no panic edge (MIR assert, index, unwrap/expect, overflow) is feasible and every Ok path re-encodes (derived Encode MIR) to exactly the consumed prefix; (2) PortableRegistry::resolve from MIR for all u32 ids: None iff out of range, never a panic; (3) the scalar leaf decoders of the real codec on arbitrary bytes in Kani: no panic/overflow/out-of-bounds, canonical, equal to the model twins.",
   note=CODEC_NOTE + " NOT decided: panic-freedom and allocation behaviour of parity-scale-codec's Vec/String decoders on arbitrary input, the whole JSON half of the property, inputs longer than the bound (a registry with one composite entry and one field needs 12 bytes).", technique=TECH + '; Kani/CBMC for the scalar leaves')
NA = {
 'C09': "not applicable to solver-based checking: the function under test is a proc macro executed by rustc on token streams at compile time; no installed engine can make a program symbolic or execute syn's parser symbolically, and the run-time value it produces has no free variable (its run-time ingredients - segment replacement, docs gating, PhantomData erasure - are decided under C18/C17)",
 'C13': "not applicable: 'the derived impl compiles for every instantiation' is decided by rustc's trait solver per generated program; there is no code to execute symbolically and no SMT encoding of trait resolution available here",
 'C19': "not applicable: needs schemars schema generation and a JSON-Schema validator over serialiser output - string-keyed-map/format!-heavy run-time code far outside CBMC (one serde_json::to_value of a tiny type: 332 s / 11.7 GB) and not modelled in mirsym; schema validation is not a property a solver can range over with the installed tools",
 'C20': "not applicable: compile-time rejection is rustc's exit status on ill-formed programs; a harness cannot contain an ill-typed call, so a typestate hole is invisible to symbolic execution of well-typed code",
 'C03': "check not built yet in this revision (Kani two-stage harness generator planned, DESIGN.md §6 C03)",
 'C04': "check not built yet in this revision (Kani two-stage harness generator planned, DESIGN.md §6 C04)",
 'C15': "check not built yet in this revision (per-feature-set re-runs planned, DESIGN.md §6 C15)",
}
m = {
 "version": 1, "setup_cmd": "./setup.sh",
 "hooks": {"guard": "cfg(kani)", "enable": "no source hooks: engine M reads rustc MIR of the unmodified crate; engine K is an external harness crate with a path dependency on /repo",
           "baseline_off_cmd": "cd /repo && cargo test --workspace --no-fail-fast --offline", "source_commits": [], "add_only": True},
 "engines": [
  {"name": "mirsym", "path": "mirsym/", "serves_properties": sorted(k for k, v in CHECKS.items() if 'mirsym' in v['engine']),
   "kind_free_text": "own MIR->z3 path-based symbolic executor (one OS process per path; z3 decides every branch and every path-end oracle); MIR regenerated from /repo on every run"},
  {"name": "kani", "path": "kani/", "serves_properties": sorted(k for k, v in CHECKS.items() if 'kani' in v['engine']),
   "kind_free_text": "Kani 0.68 / CBMC 6.11 proof harnesses in an external crate with a path dependency on /repo"},
 ],
 "checks": [], "not_applicable": [],
 "notes": "See DESIGN.md. Exit codes of ./check: 0 holds within bounds, 1 violation (natively reproduced), 2 inconclusive (never reported as success). known_findings.json lists recorded/fixed findings.",
}
for p in props:
    i = p['id']
    if i in CHECKS:
        c = CHECKS[i]
        m['checks'].append({"property_id": i, "quick_cmd": "./check %s --tier quick" % i, "thorough_cmd": "./check %s --tier thorough" % i,
                            "evidence_file": "evidence/%s.json" % i, "replay_cmd_template": "./check %s --replay {path}" % i, "engine": c['engine'],
                            "level_claimed": {"category": c['category'], "text": c['text'], "design_ref": c['design']}, "level_note": c['note'], "technique": c['technique']})
    else:
        m['not_applicable'].append({"property_id": i, "reason": NA.get(i, "check not built yet in this revision (see DESIGN.md §9 for the order of work)")})
json.dump(m, open(os.path.join(V, 'MANIFEST.json'), 'w'), indent=1)
print('claimed:', [c['property_id'] for c in m['checks']])
