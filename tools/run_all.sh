#!/bin/bash
# dev tool: run every claimed check (quick tier by default) on the current tree, print one line per check
cd "$(dirname "$0")/.."
TIER=${1:-quick}
for id in $(python3 -c "import json;print(' '.join(c['property_id'] for c in json.load(open('MANIFEST.json'))['checks']))"); do
  t0=$(date +%s)
  out=$(./check $id --tier $TIER 2>&1 | grep -v '^WARNING' | tail -2 | cut -c1-220)
  rc=${PIPESTATUS[0]}
  echo "$id $(( $(date +%s) - t0 ))s :: $out"
done
