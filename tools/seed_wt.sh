#!/bin/bash
# dev tool: scratch worktree with a seeded change applied, for debugging checks against it.  usage: seed_wt.sh <seed dir> <name>;  then VERIF_REPO=/tmp/dbg-<name> VERIF_BUILD=/tmp/dbg-<name>-build ./check <id>
# remove with: git -C /repo worktree remove --force /tmp/dbg-<name>; rm -rf /tmp/dbg-<name>-build
d=$(realpath $1); w=/tmp/dbg-$2
git -C /repo worktree add -q --detach $w HEAD || exit 3
git -C $w apply $d/patch.diff || { echo "PATCH DOES NOT APPLY"; exit 3; }
cp /repo/Cargo.lock $w/Cargo.lock 2>/dev/null; echo $w
