#!/usr/bin/env python3
"""dev tool: apply a textual mutation to /repo (file, old, new), run the given checks, restore.  usage: mutant.py file 'old' 'new' C12 [C18 ...]"""
import sys, subprocess, os
f, old, new, checks = sys.argv[1], sys.argv[2], sys.argv[3], sys.argv[4:]
p = os.path.join('/repo', f); s = open(p).read()
assert s.count(old) >= 1, 'pattern not found'
open(p, 'w').write(s.replace(old, new, 1))
try:
    b = subprocess.run('cd /repo && cargo build --offline 2>&1 | tail -3', shell=True, capture_output=True, text=True)
    print('build:', b.stdout.strip().splitlines()[-1] if b.stdout.strip() else '')
    for c in checks:
        r = subprocess.run(['/verif/check', c], capture_output=True, text=True)
        lines = [l for l in r.stdout.splitlines() if not l.startswith('WARNING')]
        print(c, 'exit', r.returncode, '|', ' | '.join(l[:260] for l in lines[-3:]))
finally:
    subprocess.run(['git', '-C', '/repo', 'checkout', '--', '.'])
