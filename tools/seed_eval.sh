#!/bin/bash
# dev tool: confirm an independently written breaking change and run our checks against it, in a scratch worktree (never touches /repo).
# usage: seed_eval.sh <seed dir with patch.diff, demo.rs> <check ids...>
d=$(realpath $1); shift
w=/tmp/seedeval-$$
git -C /repo worktree add -q --detach $w HEAD || exit 3
trap "git -C /repo worktree remove --force $w >/dev/null 2>&1; rm -rf /tmp/seedeval-build-$$ /tmp/seedeval-target-$$" EXIT
cp $d/demo.rs $w/test_suite/tests/seeded_demo.rs
export CARGO_TARGET_DIR=/tmp/seedeval-target-$$ CARGO_NET_OFFLINE=true
cd $w
base=$(cargo test --offline -p scale-info-test-suite --test seeded_demo 2>&1 | grep -E '^test result' | head -1)
git apply $d/patch.diff || { echo "PATCH DOES NOT APPLY"; exit 3; }
withp=$(cargo test --offline -p scale-info-test-suite --test seeded_demo 2>&1 | grep -E '^test result|error(\[|:)' | head -2 | tr '\n' ' ')
rm test_suite/tests/seeded_demo.rs
suite=$(cargo test --workspace --no-fail-fast --offline 2>&1 | grep -E '^test result' | tr '\n' ' ')
echo "demo without patch: $base"
echo "demo with patch:    $withp"
echo "suite with patch:   $suite"
unset CARGO_TARGET_DIR
cd /verif
for c in "$@"; do
  out=$(VERIF_REPO=$w VERIF_BUILD=/tmp/seedeval-build-$$ ./check $c 2>&1 | grep -v '^WARNING' | tail -2 | cut -c1-260 | tr '\n' ' ')
  echo "check $c: $out"
done

