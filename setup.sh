#!/bin/bash
# Offline set-up after a fresh restore: warm the build caches the checks use (everything is rebuilt from /repo's
# working tree by the checks themselves; this only pre-compiles dependencies).
set -u
cd "$(dirname "$0")"
export CARGO_NET_OFFLINE=true
mkdir -p .build evidence replays
python3-vt - <<'PY'
import sys; sys.path.insert(0, '.')
from lib.common import *
for fs in ['default', 'serde', 'docs']:
    try:
        p, s = mir_dump(fs); print('MIR', fs, p, round(s, 1), 's')
    except Exception as e:
        print('MIR dump failed for', fs, e)
try:
    n = Native(); print('replay binary built in', round(n.build_s, 1), 's'); n.close()
except Exception as e:
    print('replay build failed', e)
PY
if [ -x kani/setup.sh ]; then kani/setup.sh || true; fi
exit 0
