"""C05 - one entry per distinct type: aliases share an id, distinct types never merge.

(1) Histories: the register_type step (C01a) restricted to the C05 obligations: a present TypeId returns the existing id, changes nothing
    and evaluates nothing; an absent one gets exactly one new entry, evaluated exactly once; interner bijection TypeId <-> id.
(2) Aliases: the Identity declarations of every impl TypeInfo of the crate are read from the source and turned into a z3 function `ident`
    over an algebraic datatype of type expressions; MetaType::new stores TypeId::of::<T::Identity>() (checked from MIR in C16), TypeId::of is
    injective, so MetaType(A) == MetaType(B) <=> ident(A) == ident(B).  z3 decides, for ALL type expressions x (arbitrary nesting):
    wrappers resolve to their target, sequence-like types to [T], String to str, all PhantomData to one identity, and
    different generic arguments / different constructors never merge.
"""
import z3, json, re
from lib.common import *
from lib import regstep
from checks import c01, c16

WRAPPERS = {'Box<T>': 'Box', 'Rc<T>': 'Rc', 'Arc<T>': 'Arc', '&T': 'Ref', '&mut T': 'RefMut'}
UNARY = {'Vec<T>': 'Vec', 'VecDeque<T>': 'VecDeque', '[T]': 'Slice', 'PhantomData<T>': 'Phantom', 'Option<T>': 'Option', 'BTreeSet<T>': 'BTreeSet', 'BinaryHeap<T>': 'BinaryHeap',
         "Cow<'static, T>": 'Cow', 'scale::Compact<T>': 'Compact', 'Range<Idx>': 'Range', 'RangeInclusive<Idx>': 'RangeInclusive'}
NULLARY = {'String': 'String', 'str': 'Str', 'Duration': 'Duration'}


def rules_from_probe(probe):
    """rule kind per constructor from the native identity probe (rustc's own resolution of `<W<X> as TypeInfo>::Identity`)"""
    nm = probe['names']; out = {}
    for k, p in probe.items():
        if k == 'names': continue
        a, l = p['alias_arg'], p['leaf_arg']
        if a == p['self_alias'] and l == p['self_leaf']: out[k] = 'self'
        elif a == nm['String'] and l == nm['u8']: out[k] = 'arg'
        elif a == nm['str'] and l == nm['u8']: out[k] = 'ident_arg'
        elif a == '[%s]' % nm['String'] and l == '[%s]' % nm['u8']: out[k] = 'slice'
        elif a == nm['unit_phantom'] and l == nm['unit_phantom']: out[k] = 'phantom'
        elif a == nm['str'] and l == nm['str']: out[k] = 'str'
        elif [k2 for k2, p2 in probe.items() if k2 not in ('names', k) and p2['self_alias'] == a and p2['self_leaf'] == l]:
            out[k] = 'as:' + [k2 for k2, p2 in probe.items() if k2 not in ('names', k) and p2['self_alias'] == a and p2['self_leaf'] == l][0]      # Identity = OtherCtor<arg>
        else: raise CheckInconclusive('identity probe: %s declares Identity %r / %r - rule not understood' % (k, a, l))
    return out


def build_algebra_from_rules(rule_kinds):
    Ty = z3.Datatype('Ty')
    Ty.declare('Leaf', ('leaf_id', z3.IntSort())); Ty.declare('Unit')
    cons = {}
    for s_, nm in list(WRAPPERS.items()) + list(UNARY.items()): Ty.declare(nm, ('arg_' + nm, Ty)); cons[s_] = nm
    for s_, nm in NULLARY.items(): Ty.declare(nm); cons[s_] = nm
    Ty = Ty.create()
    ident = z3.RecFunction('ident', Ty, Ty)
    t = z3.Const('t', Ty)
    body = t
    shown = {}
    for nm, kind in rule_kinds.items():
        if not hasattr(Ty, 'is_' + nm) or kind == 'self': continue
        arg = getattr(Ty, 'arg_' + nm)(t) if hasattr(Ty, 'arg_' + nm) else None
        if kind.startswith('as:'): rhs = getattr(Ty, kind[3:])(arg) if arg is not None else getattr(Ty, kind[3:])
        else: rhs = {'arg': lambda: arg, 'ident_arg': lambda: ident(arg), 'slice': lambda: Ty.Slice(arg), 'phantom': lambda: Ty.Phantom(Ty.Unit), 'str': lambda: Ty.Str}[kind]()
        shown[nm] = kind
        body = z3.If(getattr(Ty, 'is_' + nm)(t), rhs, body)
    z3.RecAddDefinition(ident, [t], body)
    return Ty, ident, shown, cons


def build_algebra(impls):
    """impls: [(self_full, identity_expr)] -> (Ty datatype, ident function definition, notes). Unknown shapes -> CheckInconclusive"""
    Ty = z3.Datatype('TyScan')
    Ty.declare('Leaf', ('leaf_id', z3.IntSort()))
    Ty.declare('Unit')
    cons = {}
    for s, nm in list(WRAPPERS.items()) + list(UNARY.items()): Ty.declare(nm, ('arg_' + nm, Ty)); cons[s] = nm
    for s, nm in NULLARY.items(): Ty.declare(nm); cons[s] = nm
    Ty = Ty.create()
    ident = z3.RecFunction('ident_scan', Ty, Ty)
    t = z3.Const('t', Ty)
    rules, notes, rule_kinds = {}, [], {}
    for self_full, idexpr in impls:
        key = self_full
        if key not in cons:
            notes.append('impl for %s treated as a leaf constructor (Identity = %s)' % (self_full, idexpr))
            if idexpr not in ('Self', self_full): raise CheckInconclusive('alias impl with an unknown shape: %s (Identity = %s)' % (self_full, idexpr))
            continue
        nm = cons[key]
        arg = getattr(Ty, 'arg_' + nm)(t) if key not in NULLARY else None
        gen = re.search(r'<(?:\'static, )?(\w+)>|&(?:mut )?(\w+)|\[(\w+)\]', key)
        g = next((x for x in (gen.groups() if gen else []) if x), None)
        e = idexpr.replace(' ', '')
        if e in ('Self', key.replace(' ', '')): rhs = t; rule_kinds[nm] = 'self'
        elif g and e == g: rhs = arg; rule_kinds[nm] = 'arg'
        elif g and e == '[%s]' % g: rhs = Ty.Slice(arg); rule_kinds[nm] = 'slice'
        elif e == 'str': rhs = Ty.Str; rule_kinds[nm] = 'str'
        elif e == 'PhantomIdentity': rhs = Ty.Phantom(Ty.Unit); rule_kinds[nm] = 'phantom'
        elif g and e in ('%s::Identity' % g, '<%sasTypeInfo>::Identity' % g): rhs = ident(arg); rule_kinds[nm] = 'ident_arg'
        else: raise CheckInconclusive('Identity expression not understood: impl for %s has Identity = %s' % (self_full, idexpr))
        rules[nm] = rhs
    body = t
    for nm, rhs in rules.items():
        body = z3.If(getattr(Ty, 'is_' + nm)(t), rhs, body)
    z3.RecAddDefinition(ident, [t], body)
    return Ty, ident, rules, notes, (cons, rule_kinds)


class Bounded:
    """type expressions of nesting depth <= D as symbolic constructor chains (all constructors are unary or nullary);
    ident is evaluated by structural recursion in the encoder, so every obligation is quantifier-free"""
    def __init__(self, Ty, cons, rule_kinds, D, tag):
        self.Ty, self.D = Ty, D
        self.unary = [nm for s_, nm in list(WRAPPERS.items()) + list(UNARY.items())]
        self.nullary = ['Unit'] + list(NULLARY.values())
        self.tags = [z3.Int('%s_c%d' % (tag, i)) for i in range(D + 1)]
        self.leaf = z3.Int('%s_leaf' % tag)
        self.cons = []
        nU, nN = len(self.unary), len(self.nullary)
        self.term, self.idt = {}, {}
        for i in range(D, -1, -1):
            c = self.tags[i]
            # tag: 0..nU-1 unary constructors (only if i < D), nU..nU+nN-1 nullary, nU+nN leaf
            self.cons.append(z3.And(c >= (0 if i < D else nU), c <= nU + nN))
            t = Ty.Leaf(self.leaf); idv = Ty.Leaf(self.leaf)
            for j, nm in enumerate(self.nullary):
                tt = getattr(Ty, nm); t = z3.If(c == nU + j, tt, t)
                idv = z3.If(c == nU + j, self.apply_rule(rule_kinds.get(nm), tt, None, None), idv)
            if i < D:
                for j, nm in enumerate(self.unary):
                    arg, argid = self.term[i + 1], self.idt[i + 1]
                    tt = getattr(Ty, nm)(arg); t = z3.If(c == j, tt, t)
                    idv = z3.If(c == j, self.apply_rule(rule_kinds.get(nm), tt, arg, argid), idv)
            self.term[i], self.idt[i] = t, idv
        self.x, self.ident_x = self.term[0], self.idt[0]

    def apply_rule(self, kind, self_term, arg, argid):
        Ty = self.Ty
        if kind is None or kind == 'self': return self_term
        if kind == 'arg': return arg
        if kind == 'slice': return Ty.Slice(arg)
        if kind == 'str': return Ty.Str
        if kind == 'phantom': return Ty.Phantom(Ty.Unit)
        if kind == 'ident_arg': return argid
        if kind.startswith('as:'): return getattr(Ty, kind[3:])(arg) if arg is not None else getattr(Ty, kind[3:])
        raise CheckInconclusive('rule kind ' + str(kind))

    def wrap(self, nm, rule_kinds):
        """(term, ident) of constructor nm applied to x"""
        tt = getattr(self.Ty, nm)(self.x)
        return tt, self.apply_rule(rule_kinds.get(nm), tt, self.x, self.ident_x)


def alias_obligations(Ty, ident):
    x, y = z3.Const('x', Ty), z3.Const('y', Ty)
    obs = []
    for nm in WRAPPERS.values():
        obs.append(('%s<T> resolves to the same identity as its target T, for every T' % nm, [x], ident(getattr(Ty, nm)(x)) == ident(x), {'wrapper': nm}))
    obs.append(('Vec<T> and [T] share an identity', [x], ident(Ty.Vec(x)) == ident(Ty.Slice(x)), {'wrapper': 'Vec'}))
    obs.append(('VecDeque<T> and [T] share an identity', [x], ident(Ty.VecDeque(x)) == ident(Ty.Slice(x)), {'wrapper': 'VecDeque'}))
    obs.append(('&[T] and [T] share an identity', [x], ident(Ty.Ref(Ty.Slice(x))) == ident(Ty.Slice(x)), {'wrapper': 'Ref'}))
    obs.append(('String and str share an identity', [], ident(Ty.String) == ident(Ty.Str), {'wrapper': 'String'}))
    obs.append(('all PhantomData instantiations share one identity', [x, y], ident(Ty.Phantom(x)) == ident(Ty.Phantom(y)), {'wrapper': 'Phantom'}))
    # distinctness
    for nm in ('Vec', 'Slice', 'Option', 'BTreeSet', 'Compact', 'Range', 'Cow', 'VecDeque', 'BinaryHeap', 'RangeInclusive'):
        obs.append(('%s<X> and %s<Y> never merge when X and Y have different identities' % (nm, nm), [x, y],
                    z3.Implies(ident(x) != ident(y), ident(getattr(Ty, nm)(x)) != ident(getattr(Ty, nm)(y))), {'distinct': nm}))
    NONALIAS = ['Slice', 'Option', 'BTreeSet', 'BinaryHeap', 'Cow', 'Compact', 'Range', 'RangeInclusive', 'Phantom']
    for i, k1 in enumerate(NONALIAS):
        for k2 in NONALIAS[i + 1:]:
            obs.append(('%s<X> and %s<Y> never merge' % (k1, k2), [x, y], ident(getattr(Ty, k1)(x)) != ident(getattr(Ty, k2)(y)), {'distinct': k1 + '/' + k2}))
    obs.append(('different leaf types never merge', [x, y], z3.Implies(z3.And(Ty.is_Leaf(x), Ty.is_Leaf(y), x != y), ident(x) != ident(y)), {'distinct': 'Leaf'}))
    obs.append(('Option<T> never merges with T or [T]', [x], z3.And(ident(Ty.Option(x)) != ident(x), ident(Ty.Option(x)) != ident(Ty.Slice(x))), {'distinct': 'Option'}))
    obs.append(('str never merges with a slice or a leaf', [x], z3.And(ident(Ty.Str) != ident(Ty.Slice(x)), z3.Implies(Ty.is_Leaf(x), ident(Ty.Str) != ident(x))), {'distinct': 'Str'}))
    return obs


def bounded_obligations(Ty, cons, rule_kinds, D):
    X, Y = Bounded(Ty, cons, rule_kinds, D, 'x'), Bounded(Ty, cons, rule_kinds, D, 'y')
    obs = []
    def W(B, nm): return B.wrap(nm, rule_kinds)
    for nm in WRAPPERS.values():
        obs.append(('%s<T> resolves to the same identity as its target T, for every T' % nm, [X], W(X, nm)[1] == X.ident_x, {'wrapper': nm}))
    obs.append(('Vec<T> and [T] share an identity', [X], W(X, 'Vec')[1] == W(X, 'Slice')[1], {'wrapper': 'Vec'}))
    obs.append(('VecDeque<T> and [T] share an identity', [X], W(X, 'VecDeque')[1] == W(X, 'Slice')[1], {'wrapper': 'VecDeque'}))
    sl_t, sl_i = W(X, 'Slice')
    obs.append(('&[T] and [T] share an identity', [X], Bounded.apply_rule(X, rule_kinds.get('Ref'), Ty.Ref(sl_t), sl_t, sl_i) == sl_i, {'wrapper': 'Ref'}))
    obs.append(('String and str share an identity', [], Bounded.apply_rule(X, rule_kinds.get('String'), Ty.String, None, None) == Bounded.apply_rule(X, rule_kinds.get('Str'), Ty.Str, None, None), {'wrapper': 'String'}))
    obs.append(('all PhantomData instantiations share one identity', [X, Y], W(X, 'Phantom')[1] == W(Y, 'Phantom')[1], {'wrapper': 'Phantom'}))
    for nm in ('Vec', 'Slice', 'Option', 'BTreeSet', 'Compact', 'Range', 'Cow', 'VecDeque', 'BinaryHeap', 'RangeInclusive'):
        obs.append(('%s<X> and %s<Y> never merge when X and Y have different identities' % (nm, nm), [X, Y], z3.Implies(X.ident_x != Y.ident_x, W(X, nm)[1] != W(Y, nm)[1]), {'distinct': nm}))
    NONALIAS = ['Slice', 'Option', 'BTreeSet', 'BinaryHeap', 'Cow', 'Compact', 'Range', 'RangeInclusive', 'Phantom']
    for i, k1 in enumerate(NONALIAS):
        for k2 in NONALIAS[i + 1:]:
            obs.append(('%s<X> and %s<Y> never merge' % (k1, k2), [X, Y], W(X, k1)[1] != W(Y, k2)[1], {'distinct': k1 + '/' + k2}))
    obs.append(('different leaf types never merge', [X, Y], z3.Implies(z3.And(Ty.is_Leaf(X.x), Ty.is_Leaf(Y.x), X.x != Y.x), X.ident_x != Y.ident_x), {'distinct': 'Leaf'}))
    obs.append(('Option<T> never merges with T or [T]', [X], z3.And(W(X, 'Option')[1] != X.ident_x, W(X, 'Option')[1] != W(X, 'Slice')[1]), {'distinct': 'Option'}))
    obs.append(('str never merges with a slice or a leaf', [X], z3.And(Ty.Str != W(X, 'Slice')[1], z3.Implies(Ty.is_Leaf(X.x), Ty.Str != X.ident_x)), {'distinct': 'Str'}))
    return obs


def show(Ty, v):
    s = str(v)
    return s


def run_alias_algebra(ctx):
    fns, decls, _ = load_mir('default')
    impls = [(s, i) for f, s, i in c16.identity_impls(fns, decls)]
    seen, uniq = set(), []
    for s, i in impls:
        if (s, i) not in seen: seen.add((s, i)); uniq.append((s, i))
    # primary source of the rules: rustc's own resolution of the Identity projections, probed natively (robust to macros / refactors);
    # the textual scan of the impl blocks is kept as a cross-check when it can read them
    probe = ctx.get_native().ask({'op': 'identity_probe'})
    if 'names' not in probe: raise CheckInconclusive('identity probe failed: %s' % json.dumps(probe)[:300])
    rule_kinds = rules_from_probe(probe)
    Ty, ident, shown, cons = build_algebra_from_rules(rule_kinds)
    ctx.notes.append('identity rules (native probe of <W<X> as TypeInfo>::Identity): %s' % shown)
    try:
        _, _, _, _, (_, scanned) = build_algebra(uniq)
        diff = {k: (v, rule_kinds.get(k)) for k, v in scanned.items() if rule_kinds.get(k, 'self') != v}
        if diff: ctx.notes.append('textual scan of impl blocks disagrees with the probe (probe wins): %s' % diff)
    except CheckInconclusive as e:
        ctx.notes.append('textual scan of the impl blocks not possible (%s); rules come from the probe only' % str(e)[:120])
    cex = []
    t0 = time.time()
    D = 6 if ctx.thorough() else 4
    unb = {name: (vars_, prop, meta) for name, vars_, prop, meta in alias_obligations(Ty, ident)}
    nq = 0
    for name, Bs, prop, meta in bounded_obligations(Ty, cons, rule_kinds, D):
        # first the unbounded statement over the recursive definition (decided when unfolding suffices) ...
        mode = None
        if name in unb:
            s = z3.Solver(); s.set('timeout', 5000); s.add(z3.Not(unb[name][1])); nq += 1
            if s.check() == z3.unsat: mode = 'all nesting depths (unsat over the recursive definition)'
        if mode is None:
            # ... otherwise all type expressions of nesting depth <= D (quantifier-free encoding)
            s = z3.Solver(); s.set('timeout', 120000)
            for B in Bs: s.add(*B.cons)
            s.add(z3.Not(prop)); nq += 1
            r = s.check()
            if r == z3.unsat: mode = 'nesting depth <= %d' % D
            elif r == z3.sat:
                m = s.model()
                ctx.obligations['identity algebra: ' + name] = 'sat'
                cex.append(dict(meta, what='alias_algebra', obligation=name, witness={('x' if i == 0 else 'y'): str(m.eval(B.x, model_completion=True)) for i, B in enumerate(Bs)}))
                continue
            else: raise CheckInconclusive('z3 unknown on identity obligation: ' + name)
        ctx.obligations['identity algebra [%s]: %s' % (mode, name)] = 'unsat'
    ctx.notes.append('identity algebra: %d solver queries, %.2fs' % (nq, time.time() - t0))
    return cex


def replay_alias(ctx, case):
    """witness of the algebra -> the matching law of the native battery"""
    a = ctx.get_native().ask({'op': 'registry_laws', 'seed': ctx.seed})
    fails = a.get('failed', [])
    w = json.dumps(case.get('witness', {}))
    nested = any(k in w for k in ('Box(', 'Rc(', 'Arc(', 'Ref(', 'RefMut(', 'Vec(', 'VecDeque(', 'String', 'Phantom('))
    if 'wrapper' in case:
        laws = [f for f in fails if f['law'] in ('alias', 'alias_nested')]
        single = [f for f in laws if f['law'] == 'alias']
        if single: return True, None, single[0]
        if laws and nested: return True, 'transparent wrapper around a type that is itself an alias (wrapper of wrapper) gets its own id', laws[0]
        return False, None, None
    laws = [f for f in fails if f['law'] in ('distinct',)]
    if not laws:
        m = ctx.get_native().ask({'op': 'metatype_laws'})
        if not m.get('laws_ok', True): return True, None, {'law': 'distinct', 'detail': 'MetaTypes of different definitions are equal: %s' % m.get('failed', [])[:4], 'history': []}
    return (bool(laws), None, laws[0] if laws else None)


def replay(ctx, path):
    case = json.load(open(path))
    if case.get('what') == 'alias_algebra':
        rep, role, _ = replay_alias(ctx, case)
        print('REPRODUCED' if rep else 'NOT-REPRODUCED', json.dumps(case)[:300]); return 1 if rep else 0
    return c01.replay(ctx, path)


def run(ctx):
    ctx.bounds = {'registration histories': 'any length below 2^32 registered types (inductive step from an arbitrary state)',
                  'alias facts': 'type expressions over the built-in constructors: arbitrary nesting where unfolding the recursive definition suffices, otherwise nesting depth <= 4 (quick) / 6 (thorough); see obligation_list'}
    ctx.outside = ['injectivity of TypeId::of (rustc guarantee)', 'TypeInfo impls outside the crate', 'registries with 2^32 or more types']
    ctx.assumptions = ['MetaType::new::<T> stores TypeId::of::<T::Identity>() (checked from MIR under C16)', 'as C01(a) for the registration step']
    cexs = c01.registry_part(ctx, 2, 'C05')
    c01.confirm_registry(ctx, cexs, ('dedup', 'eval_once', 'distinct', 'panic'))
    for case in run_alias_algebra(ctx):
        rep, role, law = replay_alias(ctx, case)
        if law: case['native'] = {'law': law['law'], 'detail': law['detail'], 'history': law['history'][:8]}
        ctx.report_case(case, rep, role)
    ctx.samples.append({'obligation': 'forall x: Ty. ident(Box(x)) == ident(x)', 'encoding': 'ident defined by cases from the Identity declarations in src/impls.rs'})
    if not ctx.violations:
        a = ctx.get_native().ask({'op': 'registry_laws', 'seed': ctx.seed})
        known_roles = {k.get('law') for k in ctx.known}
        rel = [x for x in a.get('failed', []) if x.get('law') in ('dedup', 'eval_once', 'distinct', 'alias', 'alias_nested') and not (ctx.known and x.get('law') == 'alias_nested')]
        if rel or a.get('panic') or a.get('crashed'): raise CheckInconclusive('native registration-law battery fails although every symbolic obligation was discharged: ' + json.dumps(rel or a)[:1200])
        ctx.validated += a.get('histories', 0)
    return finish(ctx, 'other',
                  'Registration step of C01(a) restricted to the deduplication obligations (z3, ground instances of the invariant), plus an algebra of type identities: the Identity '
                  'declaration of every impl TypeInfo is read from the source into a recursive z3 function over an algebraic datatype of type expressions and z3 decides the alias and '
                  'distinctness facts for all type expressions of any nesting depth. Not called a proof (extraction and interpreter unverified).')
