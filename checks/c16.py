"""C16 - MetaType equality is type identity, and identities are coherent.

(1) PartialEq/Ord/PartialOrd/Hash/type_id/is_phantom/new of MetaType executed from MIR on two MetaTypes with symbolic 128-bit
    type ids and independent opaque function pointers.
(2) Coherence: every `impl TypeInfo` whose declared Identity differs from Self must return <Identity as TypeInfo>::type_info()
    unchanged (single forwarding call), or (PhantomData<T>) a definition whose MIR does not depend on T.
"""
import z3, json, re as _re
from lib.common import *
from mirsym.engine import *
from mirsym.models import deref, payload, tid_of


def body_laws(wrong=False):
    def body(M):
        ta, tb = z3.BitVec('ta', 128), z3.BitVec('tb', 128)
        a, b = Cell([Tok('fnA'), ta]), Cell([Tok('fnB'), tb])
        viol = []
        eq = M.run_fn(M.resolve('<MetaType as PartialEq>::eq'), [Ref(a), Ref(b)])
        viol.append(('eq <=> same type id (independent of fn pointer)', eq != (ta == tb)))
        c = M.run_fn(M.resolve('<MetaType as Ord>::cmp'), [Ref(a), Ref(b)])
        c2 = M.run_fn(M.resolve('<MetaType as Ord>::cmp'), [Ref(b), Ref(a)])
        exp = z3.If(z3.ULT(ta, tb), bv(0xFF, 8), z3.If(ta == tb, bv(0, 8), bv(1, 8)))
        viol.append(('cmp is the TypeId order', c.discr != exp))
        viol.append(('cmp == Equal <=> eq', (c.discr == 0) != eq))
        viol.append(('cmp antisymmetric', z3.Not(z3.And((c.discr == 0xFF) == (c2.discr == 1), (c.discr == 0) == (c2.discr == 0)))))
        pc = M.run_fn(M.resolve('<MetaType as PartialOrd>::partial_cmp'), [Ref(a), Ref(b)])
        viol.append(('partial_cmp == Some(cmp)', z3.BoolVal(pc.discr != 1) if isinstance(pc.discr, int) else pc.discr != 1))
        if 1 in pc.payloads: viol.append(('partial_cmp == Some(cmp)', payload(pc, 1)[0].discr != exp))
        M.aux['hash_log'] = []
        M.run_fn(M.resolve('<MetaType as Hash>::hash'), [Ref(a), Ref(Cell(Tok('hasher')))])
        hl = M.aux['hash_log']
        viol.append(('hash feeds the type id only', z3.BoolVal(True) if len(hl) != 1 else hl[0] != ta))
        tid = M.run_fn(M.resolve('MetaType::type_id'), [Ref(a)])
        viol.append(('type_id() is the stored id', tid != ta))
        M.aux['typeid_of_log'] = []
        ph = M.run_fn(M.resolve('MetaType::is_phantom'), [Ref(a)])
        log = M.aux['typeid_of_log']
        viol.append(('is_phantom <=> id is the PhantomData identity', z3.BoolVal(True) if len(log) != 1 else ph != (ta == tid_of(log[0]))))
        if wrong: viol = [('WRONG: eq also needs equal fn pointers', eq != z3.BoolVal(False))]
        failed = []
        for name, v in viol:
            if M.check(v): failed.append(name)
        if failed: M.emit('cex', what='metatype_laws', failed=failed)
        else: M.emit('ok', obligations=[n for n, _ in viol], phantom_identity=log)
    return body


def body_laws_bb():
    """black box: two MetaTypes built by MetaType::new::<A>() and ::<B>() (whatever the fields are), observed only through the public operations;
    the identities of A and B are two free 128-bit ids, so 'A and B are aliases' and 'A and B are different types' are both covered"""
    def body(M):
        new = M.resolve('MetaType::new')
        a, b = Cell(M.run_fn(new, [], {'T': 'A'})), Cell(M.run_fn(new, [], {'T': 'B'}))
        ia, ib = tid_of('<A as TypeInfo>::Identity'), tid_of('<B as TypeInfo>::Identity')
        viol = []
        ta, tb = M.run_fn(M.resolve('MetaType::type_id'), [Ref(a)]), M.run_fn(M.resolve('MetaType::type_id'), [Ref(b)])
        viol.append(('type_id() is TypeId::of::<T::Identity>()', z3.Or(ta != ia, tb != ib)))
        eq = M.run_fn(M.resolve('<MetaType as PartialEq>::eq'), [Ref(a), Ref(b)])
        viol.append(('eq <=> same identity', eq != (ia == ib)))
        c = M.run_fn(M.resolve('<MetaType as Ord>::cmp'), [Ref(a), Ref(b)])
        c2 = M.run_fn(M.resolve('<MetaType as Ord>::cmp'), [Ref(b), Ref(a)])
        viol.append(('cmp == Equal <=> eq', (c.discr == 0) != eq))
        viol.append(('cmp antisymmetric', z3.Not(z3.And((c.discr == 0xFF) == (c2.discr == 1), (c.discr == 0) == (c2.discr == 0)))))
        pc = M.run_fn(M.resolve('<MetaType as PartialOrd>::partial_cmp'), [Ref(a), Ref(b)])
        viol.append(('partial_cmp == Some(cmp)', z3.BoolVal(True) if (isinstance(pc.discr, int) and pc.discr != 1) or 1 not in pc.payloads else payload(pc, 1)[0].discr != c.discr))
        logs = []
        for x in (a, b):
            M.aux['hash_log'] = []
            M.run_fn(M.resolve('<MetaType as Hash>::hash'), [Ref(x), Ref(Cell(Tok('hasher')))])
            logs.append(list(M.aux['hash_log']))
        same = z3.BoolVal(False) if len(logs[0]) != len(logs[1]) else z3.And([M.val_eq(x, y) for x, y in zip(*logs)] + [z3.BoolVal(True)])
        viol.append(('equal MetaTypes hash alike', z3.And(eq, z3.Not(same))))
        failed = []
        for name, v in viol:
            if M.check(v): failed.append(name)
        if failed: M.emit('cex', what='metatype_laws', failed=failed)
        else: M.emit('ok', obligations=[n for n, _ in viol])
    return body


def body_new():
    def body(M):
        M.aux['typeid_of_log'] = []
        r = M.run_fn(M.resolve('MetaType::new'), [])
        log = M.aux['typeid_of_log']
        ok = isinstance(r[0], FnItem) and r[0].name == '<T as TypeInfo>::type_info' and log == ['<T as TypeInfo>::Identity'] and z3.eq(r[1], tid_of('<T as TypeInfo>::Identity'))
        if ok: M.emit('ok', stores=[str(r[0]), log])
        else: M.emit('cex', what='metatype_new', got=[str(r[0]), log])
    return body


def identity_impls(fns, decls):
    """[(fn, self_full, identity)] for every impl TypeInfo found in the MIR, Identity read from the source of the impl block"""
    out = []
    for f in fns.values():
        if f.impl is None or f.method != 'type_info' or f.kind != 'fn': continue
        info = decls.impl_info(f.impl)
        if info.get('trait') != 'TypeInfo': continue
        file, l1 = f.impl[0], f.impl[1]
        lines = decls.files[file].split('\n')
        ident = None
        for ln in lines[l1 - 1:l1 + 25]:
            m = _re.search(r'type Identity = (.+);', ln)
            if m: ident = m.group(1).strip(); break
        out.append((f, info['self_full'], ident))
    return out


def body_forward(fn, self_ty, ident):
    def body(M):
        calls = []
        def m_ti(M, a, c, fr):
            calls.append(c); return Tok('result-of:' + c)
        M.models.insert(0, (_re.compile(r'<.+ as TypeInfo>::type_info'), m_ti))
        want = '<%s as TypeInfo>::type_info' % ident
        try:
            r = M.run_fn(fn, [])
        except Inconclusive as e:
            M.emit('cex', what='alias_forwarding', impl=self_ty, identity=ident, problem='does not simply forward: ' + str(e)[:120]); return
        norm = lambda s: s.replace(' ', '').replace("'static", '')
        accepted = [norm(want), norm('<<%s as TypeInfo>::Identity as TypeInfo>::type_info' % self_ty)]
        mm = _re.fullmatch(r'(\w+)::Identity|<(\w+) as TypeInfo>::Identity', ident)
        if mm:
            # Identity = T::Identity: forwarding to T::type_info() is coherent by induction on T (T's own definition equals that of T::Identity)
            g = mm.group(1) or mm.group(2)
            accepted = [norm('<%s as TypeInfo>::type_info' % g), norm('<<%s as TypeInfo>::Identity as TypeInfo>::type_info' % g)]
        ok = len(calls) == 1 and isinstance(r, Tok) and r.name == 'result-of:' + calls[0] and norm(calls[0]) in accepted
        if ok: M.emit('ok', impl=self_ty, identity=ident, forwards_to=calls[0])
        else: M.emit('cex', what='alias_forwarding', impl=self_ty, identity=ident, problem='calls %s, returns %r' % (calls, r))
    return body


def check_param_independent(fn, self_ty):
    """the body of PhantomData<T>::type_info must not mention its type parameter anywhere (callees, constants, casts)"""
    gens = _re.findall(r'<([A-Z]\w*)>', self_ty)
    txt = '\n'.join(l for ls in fn.blocks.values() for l in ls)
    txt = _re.sub(r'impl TypeInfo for [\w:]*' + _re.escape(self_ty), 'impl TypeInfo for Self', txt)      # the impl's own name in promoted-const paths
    for g in gens:
        if _re.search(r'(?<![\w:])%s(?![\w:])' % g, txt): return False
    return True


def replay_case(ctx, case):
    nat = ctx.get_native()
    a = nat.ask({'op': 'metatype_laws'})
    if case['what'] in ('metatype_laws', 'metatype_new'): return not a.get('laws_ok', False), None
    return not a.get('aliases_ok', False), None


def replay(ctx, path):
    case = json.load(open(path)); rep, _ = replay_case(ctx, case)
    print('REPRODUCED' if rep else 'NOT-REPRODUCED', json.dumps(case)[:300]); return 1 if rep else 0


def run(ctx):
    fns, decls, _ = load_mir('default')
    ctx.bounds = {'type ids': 'all pairs of 128-bit values', 'function pointers': 'independent opaque tokens', 'alias impls': 'every impl TypeInfo in /repo/src whose Identity differs from Self'}
    ctx.outside = ['TypeInfo impls outside the crate (hand-written or derived): derive always sets Identity = Self', 'injectivity of TypeId::of (rustc guarantee)']
    ctx.assumptions = ['TypeId is modelled as an opaque 128-bit value with ==, a total order and a hash that feeds exactly that value']
    cexs = []
    deferred = []
    def attempt(name, body, **kw):
        """the two harnesses that build a MetaType field by field assume its representation; when that changes they are deferred and the
        black-box harness (MetaType::new + public operations only) decides"""
        try:
            return run_harness(ctx, name, body, **kw)
        except CheckInconclusive as e:
            deferred.append(str(e)[:300])
            if ctx.harnesses and ctx.harnesses[-1].name == name: ctx.harnesses.pop()
            return None
    h = attempt('metatype-laws', body_laws())
    if h is not None:
        cexs += [r for r in h.results if r['kind'] == 'cex']
        for r in h.results:
            if r['kind'] == 'ok':
                for o in r['obligations']: ctx.obligations[o] = 'unsat'
                ctx.samples.append({'obligation': 'forall ta,tb (128 bit), fnA != fnB opaque: eq(a,b) == (ta == tb)', 'verdict': 'unsat', 'phantom identity': r['phantom_identity']})
    h = attempt('metatype-new', body_new())
    if h is not None:
        cexs += [r for r in h.results if r['kind'] == 'cex']
        ctx.obligations['MetaType::new::<T> stores <T as TypeInfo>::type_info and TypeId::of::<T::Identity>()'] = 'unsat' if not h.kinds.get('cex') else 'sat'
    h = run_harness(ctx, 'metatype-laws-blackbox', body_laws_bb())
    cexs += [r for r in h.results if r['kind'] == 'cex']
    for r in h.results:
        if r['kind'] == 'ok':
            for o in r['obligations']: ctx.obligations['black box (new::<A>, new::<B>, identities free): ' + o] = 'unsat'
    impls = identity_impls(fns, decls)
    if len(impls) < 20: raise CheckInconclusive('declaration scanner found only %d TypeInfo impls' % len(impls))
    aliases = [(f, s, i) for f, s, i in impls if i is not None and i != 'Self' and i != s]
    missing = [(s) for f, s, i in impls if i is None]
    if missing: raise CheckInconclusive('could not read the Identity of impls: %s' % missing)
    if len(aliases) < 3: raise CheckInconclusive('vacuity: only %d alias impls found' % len(aliases))
    for f, s, i in aliases:
        if i == 'PhantomIdentity':
            okp = check_param_independent(f, s)
            ctx.obligations['%s: definition does not depend on the type parameter' % s] = 'holds' if okp else 'sat'
            if not okp: cexs.append({'kind': 'cex', 'what': 'alias_forwarding', 'impl': s, 'identity': i, 'problem': 'body mentions the type parameter'})
            continue
        h = run_harness(ctx, 'forward-' + s, body_forward(f, s, i), jobs=1)
        cexs += [r for r in h.results if r['kind'] == 'cex']
        ctx.obligations['%s (Identity = %s): type_info() is a single forwarding call' % (s, i)] = 'unsat' if not h.kinds.get('cex') else 'sat'
    ctx.notes.append('alias impls checked: %s' % [(s, i) for _, s, i in aliases])
    hneg = attempt('negative-control', body_laws(wrong=True))
    if hneg is not None:
        ctx.harnesses.pop()
        if not any(r['kind'] == 'cex' for r in hneg.results): raise CheckInconclusive('negative control not refuted')
    for c in cexs:
        case = {k: v for k, v in c.items() if k != 'kind'}
        rep, role = replay_case(ctx, case)
        ctx.report_case(case, rep, role)
    if deferred and not ctx.violations:
        raise CheckInconclusive('part of the check cannot be executed on the current code and no violation was found by the rest: ' + '; '.join(deferred)[:1200])
    if not ctx.violations:
        a = ctx.get_native().ask({'op': 'metatype_laws'})
        if not (a.get('laws_ok') and a.get('aliases_ok')): raise CheckInconclusive('native law/alias test fails although the symbolic check passed: ' + json.dumps(a))
        ctx.validated += a.get('cases', 1)
    return finish(ctx, 'model_checking',
                  'Symbolic execution of the MIR of MetaType (eq, cmp, partial_cmp, hash, type_id, is_phantom, new) over all pairs of 128-bit type ids with independent function pointers; '
                  'z3 refutes the negation of each law. Coherence: each alias impl of TypeInfo is executed and must be one forwarding call to its declared Identity.')
