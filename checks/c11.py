"""C11 - ids are stable and metadata is reproducible.

Stability: the guarantee G of register_type (interned prefix kept, existing definitions unchanged) is closed under sequencing (R transitive),
so every later state extends every earlier one.  Reproducibility: registration is a function of (state, argument) - the call graph reachable
from registry.rs / interner.rs / portable.rs::from is scanned for nondeterministic APIs.  Order independence up to renaming is derived
(first-visit numbering + C16 + C02) and cross-checked natively by the registration-law battery (permutations of roots)."""
import json, re
from lib.common import *
from lib import regstep
from checks import c01

NONDET = re.compile(r'HashMap|HashSet|RandomState|SystemTime|Instant|thread::|rand::|getrandom|as \*const .* as usize|PointerExposeProvenance|addr\(\)')


def determinism_scan(ctx):
    fns, decls, _ = load_mir('default')
    bad = []
    scanned = 0
    for f in fns.values():
        if not re.match(r'^(registry|interner|portable|meta_type)::', f.name) and 'IntoPortable' not in f.name and not f.name.startswith(('ty::', 'fields::', 'variant::', 'composite::')): continue
        if re.search(r'::fmt$|::fmt\(', f.name) or f.method in ('fmt',): continue
        scanned += 1
        for ls in f.blocks.values():
            for l in ls:
                if NONDET.search(l): bad.append((f.name, l[:160]))
    ctx.obligations['no nondeterministic API (hash maps with random state, clocks, threads, pointer-to-integer casts) in %d functions of registry/interner/portable/meta_type/ty' % scanned] = 'holds' if not bad else 'sat'
    return bad


def run(ctx):
    T = ctx.thorough()
    ctx.bounds = {'registration histories': 'any length below 2^32 registered types (inductive step; stability is the guarantee closed under sequencing)',
                  'permutation / replay cross-check (native)': 'seeded histories over the replay corpus'}
    ctx.outside = ['order independence is derived from first-visit numbering, C16 and C02 and cross-checked natively on permutations of a type corpus; it is not solver-decided over MIR']
    ctx.assumptions = ['as C01(a)', 'TypeId ordering does not influence output order: From<Registry> iterates by symbol id (checked in C01)']
    cexs = c01.registry_part(ctx, 6 if T else 4, 'C11')
    stab = [c for c in cexs]
    c01.confirm_registry(ctx, stab, ('stable', 'replay', 'permutation', 'panic'))
    bad = determinism_scan(ctx)
    if bad and not ctx.violations:
        a = ctx.get_native().ask({'op': 'registry_laws', 'seed': ctx.seed})
        f = [x for x in a.get('failed', []) if x.get('law') in ('replay', 'permutation')]
        if f: ctx.report_case({'what': 'registry_laws', 'law': f[0]['law'], 'history': f[0].get('history'), 'nondeterministic_api': bad[:3]}, True, None)
        else: raise CheckInconclusive('nondeterministic API reachable from registration: %s - native replay battery does not show a difference' % bad[:3])
    if not ctx.violations:
        a = ctx.get_native().ask({'op': 'registry_laws', 'seed': ctx.seed})
        rel = [x for x in a.get('failed', []) if x.get('law') in ('stable', 'replay', 'permutation')]
        if rel or a.get('panic') or a.get('crashed'): raise CheckInconclusive('native registration-law battery fails although every symbolic obligation was discharged: ' + json.dumps(rel or a)[:1200])
        ctx.validated += a.get('histories', 0)
    return finish(ctx, 'other',
                  'Stability of ids and definitions is the guarantee of the register_type step (executed from MIR, arbitrary pre-state) closed under sequencing (R transitive, reflexive) - '
                  'discharged by z3 through ground instances. Byte-identical replay: determinism scan of the MIR call graph. Permutation-invariance up to renaming: derived, cross-checked natively.')


replay = c01.replay
