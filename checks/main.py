import sys, os, argparse, importlib, traceback
sys.path.insert(0, os.path.dirname(os.path.dirname(os.path.abspath(__file__))))
from lib.common import *


def main():
    ap = argparse.ArgumentParser()
    ap.add_argument('pid')
    ap.add_argument('--tier', default=os.environ.get('VERIF_TIER', 'quick'), choices=['quick', 'thorough'])
    ap.add_argument('--replay', default=None)
    a = ap.parse_args()
    seed = int(os.environ.get('VERIF_SEED', '0') or 0)
    mod = importlib.import_module('checks.' + a.pid.lower())
    ctx = Ctx(a.pid, a.tier, seed)
    try:
        if a.replay:
            rc = mod.replay(ctx, a.replay)
        else:
            rc = mod.run(ctx)
    except CheckInconclusive as e:
        write_inconclusive(ctx, str(e)); rc = 2
    except Exception as e:
        write_inconclusive(ctx, 'internal error: ' + traceback.format_exc()[-2500:]); rc = 2
    finally:
        if ctx.native is not None: ctx.native.close()
        for n in ctx.natives.values(): n.close()
    sys.exit(rc)


if __name__ == '__main__':
    main()
