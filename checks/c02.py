"""C02 - the portable form is a faithful image of the compile-time definition.

<Type as IntoPortable>::into_portable and every nested IntoPortable impl (TypeParameter, TypeDef, TypeDefComposite/Variant/Sequence/Array/
Tuple/Compact/BitSequence, Field, Variant, Path, &'static str) are executed from MIR on a symbolic MetaForm type; Registry::register_type
is an uninterpreted function id_of(type id) with a call log.  Oracle: the output is the structural image of the input with each MetaType m
replaced by id_of(m) and nothing else changed.  With C01(a) (types[id_of(m)] is exactly what m.type_info().into_portable() returned, stored
once, never changed) this gives the property by induction on the reference structure.
"""
import z3, json
from lib.common import *
from lib.regmodel import KINDS
from mirsym.engine import *
from mirsym.models import deref, payload, seq_elems

TIDS = z3.DeclareSort('TypeIdSort2')
id_of = z3.Function('id_of', TIDS, z3.BitVecSort(32))


class MetaBuilder:
    """symbolic Type<MetaForm>"""
    def __init__(self, vec_cap, tag='m', caps=None):
        self.cap, self.cnt, self.cons, self.tag = vec_cap, 0, [], tag
        self.caps = caps or {}
        self.metatypes = []

    def fresh(self, name, w):
        self.cnt += 1; return z3.BitVec('%s_%s%d' % (self.tag, name, self.cnt), w)

    def tok(self, name):
        self.cnt += 1; return Tok('%s%d' % (name, self.cnt))

    def mt(self):
        self.cnt += 1
        t = z3.Const('%s_tid%d' % (self.tag, self.cnt), TIDS); self.metatypes.append(t)
        return [Tok('fn%d' % self.cnt), t]

    def vec(self, mk, cap=None):
        cap = self.cap if cap is None else cap
        ln = self.fresh('len', 64); self.cons.append(z3.ULE(ln, cap)); return VecV(ln, [mk() for _ in range(cap)])

    def opt(self, mk):
        d = self.fresh('opt', 64); self.cons.append(z3.ULT(d, 2)); return EnumV('Option', d, {0: [], 1: [mk()]})

    def docs(self, top=False): return self.vec(lambda: self.tok('doc'), cap=self.caps.get('docs_top' if top else 'docs'))
    def field(self): return [self.opt(lambda: self.tok('fname')), self.mt(), self.opt(lambda: self.tok('tname')), self.docs()]
    def variant(self): return [self.tok('vname'), self.vec(self.field, cap=self.caps.get('vfields')), self.fresh('vidx', 8), self.docs()]
    def tparam(self): return [self.tok('pname'), self.opt(self.mt)]

    def typedef(self, kind=None):
        pl = {0: lambda: [[self.vec(self.field)]], 1: lambda: [[self.vec(self.variant, cap=self.caps.get('variants'))]], 2: lambda: [[self.mt()]], 3: lambda: [[self.fresh('alen', 32), self.mt()]],
              4: lambda: [[self.vec(self.mt)]], 5: lambda: [self.prim()], 6: lambda: [[self.mt()]], 7: lambda: [[self.mt(), self.mt()]]}
        if kind is not None: return EnumV('TypeDef', kind, {kind: pl[kind]()})
        d = self.fresh('kind', 64); self.cons.append(z3.ULT(d, 8))
        return EnumV('TypeDef', d, {k: pl[k]() for k in range(8)})

    def prim(self):
        d = self.fresh('prim', 64); self.cons.append(z3.ULT(d, 15)); return EnumV('TypeDefPrimitive', d, {k: [] for k in range(15)})

    def ty(self, kind=None):
        return [[self.vec(lambda: self.tok('seg'))], self.vec(self.tparam), self.typedef(kind), self.docs(top=True)]


def is_mt(v): return isinstance(v, list) and len(v) == 2 and isinstance(v[0], Tok) and v[0].name.startswith('fn')


def image_viol(inp, out, g, viol, where='type'):
    """violation disjuncts: out is not the image of inp (MetaType m -> UntrackedSymbol{id_of(m)})"""
    if is_mt(inp):
        if not (isinstance(out, list) and len(out) == 2 and z3.is_bv(out[0])): viol.append((where, g)); return
        viol.append((where + ' id', z3.And(g, out[0] != id_of(inp[1])))); return
    if isinstance(inp, Tok) or inp is None:
        o = out
        if isinstance(o, ValSlice) and len(o.elems) == 1: o = o.elems[0]
        if not (o == inp or (inp is None and o is None)): viol.append((where, g))
        return
    if z3.is_expr(inp):
        viol.append((where, z3.And(g, inp != out) if z3.is_expr(out) else g)); return
    if isinstance(inp, VecV):
        if not isinstance(out, VecV): viol.append((where, g)); return
        il = inp.len; ol = out.len if not isinstance(out.len, int) else bv(out.len, 64)
        viol.append((where + ' length', z3.And(g, il != ol)))
        for j, a in enumerate(inp.elems):
            gj = z3.And(g, z3.ULT(bv(j, 64), il))
            if j < len(out.elems): image_viol(a, out.elems[j], gj, viol, where + '[%d]' % j)
            else: viol.append((where + ' length', gj))
        return
    if isinstance(inp, EnumV):
        if not isinstance(out, EnumV): viol.append((where, g)); return
        idd = inp.discr if not isinstance(inp.discr, int) else bv(inp.discr, 64); od = out.discr if not isinstance(out.discr, int) else bv(out.discr, 64)
        viol.append((where + ' kind', z3.And(g, idd != od)))
        for k, p in inp.payloads.items():
            gk = z3.And(g, idd == bv(k, 64))
            if k in out.payloads: image_viol(p, out.payloads[k], gk, viol, where + '.' + str(k))
            else: viol.append((where + ' kind', gk))
        return
    if isinstance(inp, list):
        if not isinstance(out, list) or len(out) != len(inp): viol.append((where, g)); return
        for j, (a, b) in enumerate(zip(inp, out)): image_viol(a, b, g, viol, where + '.%d' % j)
        return
    viol.append((where, g))


FIELD_NAMES = {'type.0': 'path', 'type.1': 'type_params', 'type.2': 'type_def', 'type.3': 'docs'}


def m_register_type(M, a, c, fr):
    mt = deref(M, a[1])
    if a[0] is None or deref(M, a[0]) != Tok('registry'): raise Inconclusive('register_type on something else than the registry')
    M.aux.setdefault('reg_log', []).append(mt[1])
    return [id_of(mt[1]), None]


MODELS_C02 = [(r'Registry::register_type', m_register_type)]


def body_into_portable(cap, kind=None, wrong=False, caps=None):
    def body(M):
        M.aux['tid_sort'] = TIDS
        mb = MetaBuilder(cap, caps=dict({'docs': 1}, **(caps or {})))
        ty = mb.ty(kind)
        for c in mb.cons: M.add(c)
        from lib.regmodel import snapshot
        orig = snapshot(ty)
        reg = Cell(Tok('registry'))
        M.aux['reg_log'] = []
        out = M.run_fn(M.resolve('<ty::Type as IntoPortable>::into_portable'), [ty, Ref(reg)])
        viol = []
        image_viol(orig, out, z3.BoolVal(True), viol)
        if reg.v != Tok('registry'): viol.append(('registry touched outside register_type', z3.BoolVal(True)))
        if wrong: viol = [('WRONG: docs dropped', z3.UGT(orig[3].len, 0))]
        m = M.model(z3.Or([v for _, v in viol]))
        if m is None:
            kd = orig[2].discr
            M.emit('ok', defkind=(kd if isinstance(kd, int) else M.model().eval(kd, model_completion=True).as_long()), registered=len(M.aux['reg_log']))
            return
        which = sorted({w for w, v in viol if z3.is_true(m.eval(v, model_completion=True))})
        kd = orig[2].discr
        M.emit('cex', what='into_portable', where=which, defkind=(kd if isinstance(kd, int) else m.eval(kd, model_completion=True).as_long()))
    return body


def replay_case(ctx, case):
    a = ctx.get_native().ask({'op': 'registry_laws', 'seed': ctx.seed})
    # 'closed' (a handed-out or referenced id has no entry) is a failure of "the id resolves to the image" as well
    f = [x for x in a.get('failed', []) if x.get('law') in ('faithful', 'closed')]
    if a.get('panic') or a.get('crashed'): return True, None, {'detail': 'battery panicked'}
    return bool(f), None, (f[0] if f else None)


def replay(ctx, path):
    case = json.load(open(path)); rep, _, _ = replay_case(ctx, case)
    print('REPRODUCED' if rep else 'NOT-REPRODUCED', json.dumps(case)[:300]); return 1 if rep else 0


def run(ctx):
    T = ctx.thorough()
    cap = 3
    ctx.bounds = {'vector lengths (path segments, params, fields, variants, fields per variant, tuple members, docs)': '<= %d; nested docs <= 1; variants x fields-per-variant: 2x2, 3x1, 1x3%s' % (cap, ' (thorough: also 4 fields / tuple members, variants 3x2 and 2x3)' if T else ''),
                  'definition kinds': 'all 8, all 15 primitives', 'scalars (array len u32, variant index u8)': 'full range', 'strings / MetaTypes': 'distinct opaque tokens / type ids'}
    ctx.outside = ['termination of registration on cyclic type graphs: argued (a nested call on an interned TypeId returns without expanding - C01(a) known-type case; the TypeIds reachable from a monomorphic root are finite) and exercised natively on recursive and mutually recursive types by the replay battery; not solver-decided',
                   'vectors longer than the bound']
    ctx.assumptions = ['Registry::register_type replaced by an uninterpreted function id_of(TypeId) with a call log; its real behaviour is C01(a)/C05']
    cexs = []
    plan = [(k, cap, None) for k in range(8) if k != 1] + [(1, 2, {'variants': 2, 'vfields': 2}), (1, 2, {'variants': 3, 'vfields': 1}), (1, 2, {'variants': 1, 'vfields': 3})] \
        + ([(0, 4, None), (4, 4, None), (1, 3, {'variants': 3, 'vfields': 2, 'docs': 1}), (1, 3, {'variants': 2, 'vfields': 3, 'docs': 1})] if T else [])
    kinds = set()
    for k, c, caps in plan:
        h = run_harness(ctx, 'into_portable-%s-cap%d-%s' % (KINDS[k], c, caps), body_into_portable(c, k, caps=caps), models=MODELS_C02)
        cexs += [r for r in h.results if r['kind'] == 'cex']
        ctx.obligations['into_portable(%s) is the structural image with MetaType -> id_of, vectors <= %d %s (%d paths)' % (KINDS[k], c, caps or '', sum(h.kinds.values()))] = 'sat' if h.kinds.get('cex') else 'unsat'
        if k == 1: ctx.samples.append({'harness': h.name, 'paths': sum(h.kinds.values()), 'oracle': 'per path: pc AND (some field/name/index/doc/len differs OR some id != id_of(type id)) is unsat'})
    # the registration side of the property (the returned id resolves to that image): bounded black-box histories on the real Registry
    from lib import regstep
    from checks import c01
    for n in (1, 2, 3):
        try:
            h = run_harness(ctx, 'registry-history-%d' % n, regstep.body_registry_history(n))
        except CheckInconclusive as e:
            ctx.notes.append('registry history n=%d not executable: %s' % (n, str(e)[:200])); continue
        hc = c01.collect(ctx, h, 'registry history', 'C02')
        for r in hc: cexs.append(dict(r, what='registry_history', defkind=5, where=r.get('failed')))
    depth = max(40, 2 * size_threshold() + 4)
    ctx.bounds['nested registration chain (every level resolves to its image)'] = 'depth %d (more than twice the largest size constant in the registry code)' % depth
    try:
        h = run_harness(ctx, 'registry-chain-%d' % depth, regstep.body_registry_chain(depth), timeout=900, jobs=1)
        for r in c01.collect(ctx, h, 'registry chain', 'C02'): cexs.append(dict(r, what='registry_history', defkind=2, where=r.get('failed')))
    except CheckInconclusive as e:
        ctx.notes.append('registry chain not executable: %s' % str(e)[:200])
    hn = run_harness(ctx, 'negative-control', body_into_portable(1, 0, wrong=True), models=MODELS_C02); ctx.harnesses.pop()
    if not any(r['kind'] == 'cex' for r in hn.results): raise CheckInconclusive('negative control not refuted')
    if cexs:
        rep, role, law = replay_case(ctx, cexs[0])
        for c in cexs[:3]:
            case = {k: v for k, v in c.items() if k != 'kind'}
            case['kind_name'] = KINDS[case.get('defkind', 0)]
            if law: case['native'] = {'detail': law.get('detail'), 'history': (law.get('history') or [])[:8]}
            ctx.report_case(case, rep, role)
    if not ctx.violations:
        a = ctx.get_native().ask({'op': 'registry_laws', 'seed': ctx.seed})
        rel = [x for x in a.get('failed', []) if x.get('law') == 'faithful']
        if rel or a.get('panic') or a.get('crashed'): raise CheckInconclusive('native faithful-image battery fails although every symbolic obligation was discharged: ' + json.dumps(rel or a)[:1200])
        ctx.validated += a.get('histories', 0)
        ctx.notes.append('native battery: recursive (Rec), mutually recursive (MA/MB), self-referential hand-written (Counted) types registered and compared with type_info() - terminates')
    return finish(ctx, 'model_checking',
                  'Bounded symbolic execution of the MIR of <Type as IntoPortable>::into_portable and all nested IntoPortable impls on a symbolic MetaForm type (kinds, presence, lengths, scalars symbolic; '
                  'strings and MetaTypes opaque); register_type is an uninterpreted function. Per path z3 refutes any difference between the output and the structural image of the input.')
