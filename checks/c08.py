"""C08 - the JSON form has the documented shape and round-trips (both decided at the serde data-model level).

The MIR of the derived Serialize impls (feature serde) of PortableRegistry and every nested type is executed on a symbolic registry with a
tree-building model of serde's Serializer / SerializeStruct (keys, variant tags, skip_field, transparency are read from the derive's real
output); the resulting document is compared with a reference document built from the property text.  Round trip: the MIR of the derived
Deserialize impls (field-identifier visitors, visit_map loops, missing_field defaults, enum access) is then executed on that document
with models of Deserializer / MapAccess / EnumAccess walking the tree: the result must be Ok and equal to the original registry.
"""
import z3, json
from lib.common import *
from lib.regmodel import *
from mirsym.engine import *
from mirsym.models import deref, payload, seq_elems, is_variant, res_ok, res_err
from mirsym.codec_models import CODEC_SUBST

PRIM_TAGS = ['bool', 'char', 'str', 'u8', 'u16', 'u32', 'u64', 'u128', 'u256', 'i8', 'i16', 'i32', 'i64', 'i128', 'i256']
DEF_TAGS = ['composite', 'variant', 'sequence', 'array', 'tuple', 'primitive', 'compact', 'bitsequence']


class StructSer:
    def __init__(self, name): self.name, self.fields, self.skipped = name, [], []


def sstr(v):
    v = v if not isinstance(v, Ref) else None
    return v


def cstr(M, x):
    x = deref(M, x)
    if isinstance(x, ValSlice) and all(z3.is_bv_value(b) for b in x.elems): return bytes(b.as_long() for b in x.elems).decode()
    raise Inconclusive('non-constant key/tag %r' % (x,))


def ser_value(M, ty, ref, fr):
    return M.call('<%s as Serialize>::serialize::<__S>' % ty, [ref, Tok('serializer')], fr)


def m_serialize_struct(M, a, c, fr): return res_ok(StructSer(cstr(M, a[1])))


def m_serialize_field(M, a, c, fr):
    ss = deref(M, a[0])
    m = re.fullmatch(r'<.+ as SerializeStruct>::serialize_field::<(.+)>', c)
    r = ser_value(M, m.group(1), a[2], fr)
    ss.fields.append((cstr(M, a[1]), payload(r, 0)[0])); return res_ok([])


def m_skip_field(M, a, c, fr):
    deref(M, a[0]).skipped.append(cstr(M, a[1])); return res_ok([])


def m_struct_end(M, a, c, fr):
    ss = a[0] if isinstance(a[0], StructSer) else deref(M, a[0]); return res_ok(('obj', list(ss.fields)))


def m_newtype_variant(M, a, c, fr):
    m = re.fullmatch(r'<.+ as Serializer>::serialize_newtype_variant::<(.+)>', c)
    r = ser_value(M, m.group(1), a[4], fr)
    return res_ok(('obj', [(cstr(M, a[3]), payload(r, 0)[0])]))


def m_unit_variant(M, a, c, fr): return res_ok(('str', cstr(M, a[3])))
def m_ser_num(M, a, c, fr): return res_ok(('num', deref(M, a[0])))
def m_ser_str(M, a, c, fr): return res_ok(('str', deref(M, a[0])))


def m_ser_vec(M, a, c, fr):
    m = re.fullmatch(r'<&?Vec<(.+)> as Serialize>::serialize(::<.*>)?', c)
    v = deref(M, a[0]); n = M.concrete(v.len, 'ser.vec.len')
    base = a[0]
    while isinstance(M.load(base), Ref): base = M.load(base)
    out = []
    for i in range(n): out.append(payload(ser_value(M, m.group(1), Ref(base.cell, base.path + (('e', i),)), fr), 0)[0])
    return res_ok(('arr', out))


def m_ser_opt(M, a, c, fr):
    m = re.fullmatch(r'<(?:std::option::)?Option<(.+)> as Serialize>::serialize(::<.*>)?', c)
    o = deref(M, a[0])
    base = a[0]
    while isinstance(M.load(base), Ref): base = M.load(base)
    if is_variant(M, o, 1, 'ser.option'): return ser_value(M, m.group(1), Ref(base.cell, base.path + (('v', 1), 0)), fr)
    return res_ok(('null',))


def m_ser_ref(M, a, c, fr):
    m = re.fullmatch(r'<&(?:mut )?(.+) as Serialize>::serialize(::<.*>)?', c)
    return M.call('<%s as Serialize>::serialize::<__S>' % m.group(1), [M.load(a[0]), a[1]], fr)


def m_serialize_some(M, a, c, fr):
    # Serializer::serialize_some(self, &T): a self-describing format writes the value itself (what serde_json does); reached from
    # hand-written `serialize_with` functions, the derive itself goes through <Option<T> as Serialize>
    m = re.fullmatch(r'<.+ as Serializer>::serialize_some::<(.+)>', c)
    return ser_value(M, m.group(1), a[1], fr)


def m_serialize_none(M, a, c, fr): return res_ok(('null',))


def m_opt_is_none_sym(M, a, c, fr):
    o = deref(M, a[0]); return z3.BoolVal(o.discr == 0) if isinstance(o.discr, int) else o.discr == 0


SERDE_MODELS = [
    (r'<.+ as Serializer>::serialize_struct', m_serialize_struct),
    (r'<.+ as Serializer>::serialize_some::<.+>', m_serialize_some), (r'<.+ as Serializer>::serialize_none', m_serialize_none),
    (r'<.+ as SerializeStruct>::serialize_field::<.+>', m_serialize_field), (r'<.+ as SerializeStruct>::skip_field', m_skip_field), (r'<.+ as SerializeStruct>::end', m_struct_end),
    (r'<.+ as Serializer>::serialize_newtype_variant::<.+>', m_newtype_variant), (r'<.+ as Serializer>::serialize_unit_variant', m_unit_variant),
    (r'<(u8|u16|u32|u64) as Serialize>::serialize(::<.*>)?', m_ser_num), (r'<(String|&?str) as Serialize>::serialize(::<.*>)?', m_ser_str),
    (r'<&?Vec<.+> as Serialize>::serialize(::<.*>)?', m_ser_vec), (r'<(std::option::)?Option<.+> as Serialize>::serialize(::<.*>)?', m_ser_opt),
    (r'<&(mut )?.+ as Serialize>::serialize(::<.*>)?', m_ser_ref),
]


# ----------------------------------------------------------------------------- Deserialize side: a Deserializer / MapAccess / EnumAccess walking the document tree
class JDe:
    """Deserializer over one node of the document produced by the Serialize run"""
    def __init__(self, j): self.j = j


class MapAcc:
    def __init__(self, items): self.items, self.i, self.pending = list(items), 0, None


class EnumAcc:
    def __init__(self, tag, body): self.tag, self.body = tag, body


DE_ERR = Tok('serde-error')


def last_generic(c):
    d, k = 0, len(c) - 1
    while k >= 0:
        ch = c[k]
        if ch == '>' and c[k - 1] not in '-=': d += 1
        elif ch == '<':
            d -= 1
            if d == 0: break
        k -= 1
    from mirsym.mir import split_top
    return split_top(c[k + 1:-1])


def visitor_fn(M, vtype, meth):
    nz = lambda t: t.replace('PortableForm', 'T').replace(' ', '')
    c = [f for f in M.fns.values() if f.kind == 'fn' and f.args and nz(f.args[0][1]) == nz(vtype) and re.sub(r'#\d+$', '', f.name).endswith('::' + meth)]
    if len(c) != 1: raise Inconclusive('visitor method %s of %s: %d candidates' % (meth, vtype[-60:], len(c)))
    return c[0]


def de_value(M, ty, j, fr):
    return M.call('<%s as Deserialize<\'_>>::deserialize::<__D>' % ty, [JDe(j)], fr)


def m_de_struct(M, a, c, fr):
    d = a[0]; vtype = last_generic(c)[-1]
    if not isinstance(d, JDe): raise Inconclusive('deserializer is %r' % (d,))
    if d.j[0] == 'obj': return M.run_fn(visitor_fn(M, vtype, 'visit_map'), [a[3], MapAcc(d.j[1])])
    return res_err(DE_ERR)


def m_de_identifier(M, a, c, fr):
    d = a[0]; vtype = last_generic(c)[-1]
    if isinstance(d, JDe) and d.j[0] == 'str' and not isinstance(d.j[1], str):
        # an opaque string where an identifier (key / variant tag) is expected: it may equal none of the known names -> serde's unknown field / variant path
        return M.run_fn(visitor_fn(M, vtype, 'visit_str'), [a[1], ValSlice([bv(b, 8) for b in b'\x7fopaque\x7f'], True)])
    if not isinstance(d, JDe) or d.j[0] != 'str': return res_err(DE_ERR)
    return M.run_fn(visitor_fn(M, vtype, 'visit_str'), [a[1], ValSlice([bv(b, 8) for b in d.j[1].encode()], True)])


def m_map_next_key(M, a, c, fr):
    m = deref(M, a[0]); kty = last_generic(c)[-1]
    if m.i >= len(m.items): return res_ok(opt_none_())
    k, v = m.items[m.i]; m.i += 1; m.pending = v
    r = de_value(M, kty, ('str', k), fr)
    if is_variant(M, r, 1, 'next_key'): return r
    return res_ok(opt_some_(payload(r, 0)[0]))


def m_map_next_value(M, a, c, fr):
    m = deref(M, a[0]); vty = last_generic(c)[-1]
    if vty.endswith('IgnoredAny'): return res_ok([])
    return de_value(M, vty, m.pending, fr)


def opt_none_():
    from mirsym.models import opt_none; return opt_none()
def opt_some_(v):
    from mirsym.models import opt_some; return opt_some(v)


def m_missing_field(M, a, c, fr):
    ty = last_generic(c)[1] if len(last_generic(c)) >= 2 else ''
    if re.match(r'^(std::option::)?Option<', ty): return res_ok(opt_none_())
    return res_err(DE_ERR)


def m_de_num(M, a, c, fr):
    d = a[0]; w = {'u8': 8, 'u16': 16, 'u32': 32, 'u64': 64}[re.match(r'<(\w+) as', c).group(1)]
    if d.j[0] != 'num' or not z3.is_bv(d.j[1]): return res_err(DE_ERR)
    v = d.j[1]
    if v.size() < w: v = z3.ZeroExt(w - v.size(), v)
    elif v.size() > w:
        # JSON numbers are unbounded: a value that does not fit the target width is an error
        if not M.concrete_bool(z3.Extract(v.size() - 1, w, v) == 0, 'de.num.fits'): return res_err(DE_ERR)
        v = z3.Extract(w - 1, 0, v)
    return res_ok(z3.simplify(v))


def m_de_string(M, a, c, fr):
    d = a[0]
    if d.j[0] != 'str': return res_err(DE_ERR)
    return res_ok(d.j[1] if not isinstance(d.j[1], str) else Tok('lit:' + d.j[1]))


def m_de_vec(M, a, c, fr):
    d = a[0]; et = re.fullmatch(r"<Vec<(.+)> as Deserialize<'_>>::deserialize(::<.*>)?", c).group(1)
    if d.j[0] != 'arr': return res_err(DE_ERR)
    out = []
    for x in d.j[1]:
        r = de_value(M, et, x, fr)
        if is_variant(M, r, 1, 'vec.elem'): return r
        out.append(payload(r, 0)[0])
    return res_ok(VecV(bv(len(out), 64), out))


def m_de_option(M, a, c, fr):
    d = a[0]; et = re.fullmatch(r"<(?:std::option::)?Option<(.+)> as Deserialize<'_>>::deserialize(::<.*>)?", c).group(1)
    if d.j[0] == 'null': return res_ok(opt_none_())
    r = de_value(M, et, d.j, fr)
    if is_variant(M, r, 1, 'option.payload'): return r
    return res_ok(opt_some_(payload(r, 0)[0]))


def m_de_enum(M, a, c, fr):
    d = a[0]; vtype = last_generic(c)[-1]
    if d.j[0] == 'str': acc = EnumAcc(d.j[1] if isinstance(d.j[1], str) else '\x7fopaque\x7f', None)
    elif d.j[0] == 'obj' and len(d.j[1]) == 1: acc = EnumAcc(d.j[1][0][0], d.j[1][0][1])
    else: return res_err(DE_ERR)
    return M.run_fn(visitor_fn(M, vtype, 'visit_enum'), [a[3], acc])


def m_enum_variant(M, a, c, fr):
    acc = a[0]; kty = last_generic(c)[-1]
    r = de_value(M, kty, ('str', acc.tag), fr)
    if is_variant(M, r, 1, 'enum.variant'): return r
    return res_ok([payload(r, 0)[0], acc])


def m_newtype_variant_de(M, a, c, fr):
    acc = a[0]; ty = last_generic(c)[-1]
    if acc.body is None: return res_err(DE_ERR)
    return de_value(M, ty, acc.body, fr)


def m_unit_variant_de(M, a, c, fr):
    return res_ok([]) if a[0].body is None else res_err(DE_ERR)


SERDE_DE_MODELS = [
    (r"<__D as Deserializer<'_>>::deserialize_struct::<.+>", m_de_struct), (r"<__D as Deserializer<'_>>::deserialize_identifier::<.+>", m_de_identifier),
    (r"<__D as Deserializer<'_>>::deserialize_enum::<.+>", m_de_enum),
    (r"<__A as MapAccess<'_>>::next_key::<.+>", m_map_next_key), (r"<__A as MapAccess<'_>>::next_value::<.+>", m_map_next_value),
    (r"<__A as EnumAccess<'_>>::variant::<.+>", m_enum_variant),
    (r"<<__A as EnumAccess<'_>>::Variant as VariantAccess<'_>>::newtype_variant::<.+>", m_newtype_variant_de), (r"<<__A as EnumAccess<'_>>::Variant as VariantAccess<'_>>::unit_variant", m_unit_variant_de),
    (r".*::__private\d*::de::missing_field::<.+>", m_missing_field),
    (r"<.+ as .*de::Error>::(duplicate_field|unknown_field|unknown_variant|invalid_length|missing_field|custom|invalid_value|invalid_type)(::<.*>)?", lambda M, a, c, fr: DE_ERR),
    (r"<(u8|u16|u32|u64) as Deserialize<'_>>::deserialize(::<.*>)?", m_de_num), (r"<String as Deserialize<'_>>::deserialize(::<.*>)?", m_de_string),
    (r"<Vec<.+> as Deserialize<'_>>::deserialize(::<.*>)?", m_de_vec), (r"<(std::option::)?Option<.+> as Deserialize<'_>>::deserialize(::<.*>)?", m_de_option),
    (r"<PhantomData<.*> as Deserialize<'_>>::deserialize(::<.*>)?", lambda M, a, c, fr: res_ok(None)),
]


# ----------------------------------------------------------------------------- reference document, from the property text
def ref_doc(M, reg):
    def n(v): return M.concrete(v.len, 'ref.len') if isinstance(v, VecV) else len(v.elems)
    def arr(v, f): return ('arr', [f(x) for x in v.elems[:n(v)]])
    def some(o): return o.discr == 1 if isinstance(o.discr, int) else M.concrete_bool(o.discr == 1, 'ref.opt')
    def strs(v): return arr(v, lambda s: ('str', s))
    def opt_put(d, key, o):
        if some(o): d.append((key, ('str', o.payloads[1][0])))
    def nonempty_put(d, key, v, f):
        if n(v) > 0: d.append((key, arr(v, f)))
    def field(f):
        d = []; opt_put(d, 'name', f[0]); d.append(('type', ('num', f[1][0]))); opt_put(d, 'typeName', f[2]); nonempty_put(d, 'docs', f[3], lambda s: ('str', s)); return ('obj', d)
    def variant(v):
        d = [('name', ('str', v[0]))]; nonempty_put(d, 'fields', v[1], field); d.append(('index', ('num', v[2]))); nonempty_put(d, 'docs', v[3], lambda s: ('str', s)); return ('obj', d)
    def tdef(e):
        k = e.discr if isinstance(e.discr, int) else M.choose([e.discr == j for j in range(8)], 'ref.kind')
        p = e.payloads[k]
        if k == 0:
            d = []; nonempty_put(d, 'fields', p[0][0], field); body = ('obj', d)
        elif k == 1:
            d = []; nonempty_put(d, 'variants', p[0][0], variant); body = ('obj', d)
        elif k == 2: body = ('obj', [('type', ('num', p[0][0][0]))])
        elif k == 3: body = ('obj', [('len', ('num', p[0][0])), ('type', ('num', p[0][1][0]))])
        elif k == 4: body = arr(p[0][0], lambda s: ('num', s[0]))
        elif k == 5:
            j = p[0].discr if isinstance(p[0].discr, int) else M.choose([p[0].discr == i for i in range(15)], 'ref.prim'); body = ('str', PRIM_TAGS[j])
        elif k == 6: body = ('obj', [('type', ('num', p[0][0][0]))])
        else: body = ('obj', [('bit_store_type', ('num', p[0][0][0])), ('bit_order_type', ('num', p[0][1][0]))])
        return ('obj', [(DEF_TAGS[k], body)])
    def param(p):
        return ('obj', [('name', ('str', p[0])), ('type', ('num', p[1].payloads[1][0][0]) if some(p[1]) else ('null',))])
    def ty(t):
        d = []
        nonempty_put(d, 'path', t[0][0], lambda s: ('str', s)); nonempty_put(d, 'params', t[1], param); d.append(('def', tdef(t[2]))); nonempty_put(d, 'docs', t[3], lambda s: ('str', s))
        return ('obj', d)
    return ('obj', [('types', arr(reg[0], lambda pt: ('obj', [('id', ('num', pt[0])), ('type', ty(pt[1]))])))])


def jdiff(a, b, out, where='$'):
    if a[0] != b[0]: out.append((where + ': %s vs %s' % (a[0], b[0]), z3.BoolVal(True))); return
    if a[0] == 'obj':
        ka, kb = [k for k, _ in a[1]], [k for k, _ in b[1]]
        if sorted(ka) != sorted(kb) or len(set(ka)) != len(ka): out.append((where + ': keys %s vs %s' % (ka, kb), z3.BoolVal(True))); return
        db = dict(b[1])
        for k, v in a[1]: jdiff(v, db[k], out, where + '.' + k)
    elif a[0] == 'arr':
        if len(a[1]) != len(b[1]): out.append((where + ': array length', z3.BoolVal(True))); return
        for i, (x, y) in enumerate(zip(a[1], b[1])): jdiff(x, y, out, '%s[%d]' % (where, i))
    elif a[0] == 'num':
        x, y = a[1], b[1]
        if z3.is_expr(x) and z3.is_expr(y) and x.size() == y.size(): out.append((where, x != y))
        else: out.append((where + ': number width', z3.BoolVal(True)))
    elif a[0] == 'str':
        x, y = a[1], b[1]
        if isinstance(x, str) or isinstance(y, str): ok = x == y
        else: ok = (x == y)
        if not ok: out.append((where + ': string', z3.BoolVal(True)))


def jshow(m, j):
    if j[0] == 'obj': return {k: jshow(m, v) for k, v in j[1]}
    if j[0] == 'arr': return [jshow(m, v) for v in j[1]]
    if j[0] == 'num': return m.eval(j[1], model_completion=True).as_long() if z3.is_expr(j[1]) else j[1]
    if j[0] == 'str': return j[1] if isinstance(j[1], str) else getattr(j[1], 'name', str(j[1]))
    return None


def body_shape(n, vec_cap, param_cap, template=None, wrong=False, roundtrip=True):
    def body(M):
        M.aux['const_hook'] = lambda M, s: (Tok('const:' + s.split('::')[-1]) if re.search(r'::(FIELDS|VARIANTS)$', s) or '__FieldVisitor' in s or '__Visitor' in s else NotImplemented)
        check_decls(M.decls, M)
        M.aux['dictmaps'] = True        # a hand-written (de)serialiser may go through the builder / interner
        rb = RegBuilder(n, vec_cap=vec_cap, param_cap=param_cap, template=template, full_ids=True)
        rb.docs = lambda: rb.vec(lambda: rb.tok('doc'), cap=1)
        rb.path = lambda: [rb.vec(lambda: rb.tok('seg'), cap=1)]
        reg = rb.registry(symbolic_ids=True)
        for c in rb.cons: M.add(c)
        orig = snapshot(reg)
        r = M.run_fn(M.resolve('<PortableRegistry as Serialize>::serialize'), [Ref(Cell(reg)), Tok('serializer')])
        if is_variant(M, r, 1, 'ser.result'):
            M.emit('cex', what='json_shape', failed=['serialisation fails'], types=reg_to_case(M.model(), orig)); return
        got = payload(r, 0)[0]
        exp = ref_doc(M, orig)
        d = []; jdiff(got, exp, d)
        if roundtrip:
            from lib import v14ref
            rr = M.call("<PortableRegistry as Deserialize<'_>>::deserialize::<__D>", [JDe(got)])
            if is_variant(M, rr, 1, 'de.result'): d.append(('round trip: deserialising the produced document fails', z3.BoolVal(True)))
            else:
                dd = []; v14ref.struct_diff(orig, payload(rr, 0)[0], z3.BoolVal(True), dd)
                d += [('round trip: deserialised registry differs at ' + w, c) for w, c in dd]
        if wrong: d = [('WRONG', z3.BoolVal(True))]
        m = M.model(z3.Or([c for _, c in d])) if d else None
        if m is None: M.emit('ok')
        else:
            which = sorted({w for w, c in d if z3.is_true(m.eval(c, model_completion=True))})
            M.emit('cex', what='json_shape', failed=which[:5], types=reg_to_case(m, orig), got=jshow(m, got), expected=jshow(m, exp))
    return body


def replay_case(ctx, case):
    a = {}
    for label, types in string_variants(case['types']):
        a = ctx.get_native().ask({'op': 'json_shape', 'types': types})
        bad = a.get('panic') or a.get('crashed') or (not a.get('shape_ok', True)) or (not a.get('roundtrip_ok', True))
        if bad:
            case['strings_realised_as'] = label; case['types'] = types
            return True, None, a
    return False, None, a


def replay(ctx, path):
    case = json.load(open(path)); rep, _, _ = replay_case(ctx, case)
    print('REPRODUCED' if rep else 'NOT-REPRODUCED', json.dumps(case)[:300]); return 1 if rep else 0


def run(ctx):
    T = ctx.thorough()
    ctx.bounds = {'registry entries': '1 of every kind (all presence / emptiness combinations within the vector bounds), 2 for seeded kind pairs', 'vectors': '<= 2 elements (variants and fields per variant: <= 1); thorough: one more (variants x fields per variant: 2x1 and 1x2)',
                  'ids / array len / variant index': 'full range (symbolic)', 'strings': 'opaque tokens'}
    ctx.outside = ['serde_json\'s own text layer (the claim is at the serde data-model level: keys, tags, presence, order-insensitive)', 'arbitrary unicode in strings (strings are opaque)']
    ctx.assumptions = ['tree-building model of serde::Serializer / SerializeStruct (externally tagged enums as serde_json renders them)', 'tree-walking models of serde::Deserializer / MapAccess / EnumAccess / VariantAccess (self-describing format: structs from maps, missing Option fields are None)']
    cexs = []
    plan = [('kind-%s' % KINDS[k], dict(n=1, vec_cap=(1 if k == 1 else 2) + (1 if T and k != 1 else 0), param_cap=1, template=[{'kind': k}])) for k in range(8)] + [('n0', dict(n=0, vec_cap=1, param_cap=1))]
    if T:   # variants x fields per variant beyond 1x1 with fixed lengths (the free-length product explodes: > 10^6 paths)
        plan += [('kind-Variant-2x1', dict(n=1, vec_cap=2, param_cap=1, template=[{'kind': 1, 'lens': [2, 1, 1]}])), ('kind-Variant-1x2', dict(n=1, vec_cap=2, param_cap=1, template=[{'kind': 1, 'lens': [1, 2, 1]}]))]
    rng = ctx.rng
    for j in range(4 if T else 2):
        ks = [rng.randrange(8), rng.randrange(8)]
        plan.append(('n2-%s-%s' % (KINDS[ks[0]], KINDS[ks[1]]), dict(n=2, vec_cap=1, param_cap=0, template=[{'kind': ks[0], 'nparams': 0}, {'kind': ks[1], 'nparams': 0}])))
    for name, kw in plan:
        h = run_harness(ctx, 'shape-' + name, body_shape(**kw), fs='serde', models=SERDE_MODELS + SERDE_DE_MODELS, subst=CODEC_SUBST)
        c = [r for r in h.results if r['kind'] == 'cex']; cexs += c
        ctx.obligations['JSON document == documented shape: %s (%d paths)' % (name, sum(h.kinds.values()))] = 'sat' if c else 'unsat'
    hn = run_harness(ctx, 'negative-control', body_shape(1, 1, 1, template=[{'kind': 2}], wrong=True), fs='serde', models=SERDE_MODELS + SERDE_DE_MODELS, subst=CODEC_SUBST); ctx.harnesses.pop()
    if not any(r['kind'] == 'cex' for r in hn.results): raise CheckInconclusive('negative control not refuted')
    seen = set()
    for c in cexs:
        case = {k: v for k, v in c.items() if k != 'kind'}
        key = json.dumps(case['failed'])
        if key in seen: continue
        seen.add(key)
        rep, role, a = replay_case(ctx, case)
        case['native'] = {k: a.get(k) for k in ('shape_ok', 'roundtrip_ok', 'json')}
        ctx.report_case(case, rep, role)
        if len(ctx.violations) >= 3: break
    if not ctx.violations:
        a = ctx.get_native().ask({'op': 'json_battery'})
        if a.get('failed') or a.get('panic') or a.get('crashed'): raise CheckInconclusive('native JSON battery fails although the symbolic shape check passed: ' + json.dumps(a)[:800])
        ctx.validated += a.get('cases', 0)
    ctx.samples.append({'expected': {'types': [{'id': 'u32', 'type': {'path': ['..omitted if empty'], 'params': [{'name': '..', 'type': 'id | null'}], 'def': {'array': {'len': 'u32', 'type': 'id'}}, 'docs': ['..omitted if empty']}}]}})
    return finish(ctx, 'model_checking',
                  'Bounded symbolic execution of the MIR of the derived Serialize impls (feature serde) with a tree-building Serializer model; per path the produced document is compared with the documented shape '
                  '(keys, lower-case tags, omissions, transparency), leaves by z3; then the derived Deserialize MIR is executed on that document and must return the original registry.')
