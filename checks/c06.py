"""C06 - the SCALE wire format of the registry is the published V14 layout, byte for byte.

Engine K (real parity-scale-codec, Kani/CBMC): for every node of the layout the library's `encode_to` into a fixed array equals a reference
encoder written from the layout text, for all scalar contents (ids over the full u32 range, array length, variant index, all 15 primitives);
nodes with strings/vectors use concrete shapes, one harness per shape.  Engine M (mirsym): the derived Encode MIR of whole symbolic
registries (every kind, presence combination, vector lengths, ids across all compact classes, string bytes) is compared bytewise with an
independent Python reference encoder, and an independent reference decoder must read the value back (composition).
The library decoder on reference-encoded input follows from byte equality and C07.
"""
import json
from lib.common import *
from lib import kanirun
from checks import c07

QUICK = ['c06_symbol', 'c06_def_sequence', 'c06_def_array', 'c06_def_primitive', 'c06_def_compact', 'c06_def_bitsequence', 'c06_field_none_none', 'c06_field_some_none', 'c06_field_none_some',
         'c06_field_some_some', 'c06_param_some', 'c06_param_none', 'c06_def_tuple', 'c06_def_composite0', 'c06_def_variant0', 'c06_def_tuple0', 'c06_portable_type']
THOROUGH_EXTRA = ['c06_variant']


def run_kani(ctx, harnesses, timeout, prefix):
    res = kanirun.run_many(harnesses, timeout=timeout, jobs=8)
    failed = []
    for r in res:
        ctx.obligations['%s [kani %s]: %s, %.1fs solver' % (prefix, r['harness'], r['verdict'], r.get('solver_s') or 0.0)] = 'unsat' if r['verdict'] == 'successful' else ('sat' if r['verdict'] == 'failed' else 'undecided')
        if r['verdict'] == 'failed': failed.append(r)
        elif r['verdict'] != 'successful': raise CheckInconclusive('kani harness %s undecided: %s (log %s)' % (r['harness'], r.get('why'), r['log']))
    ctx.kani = getattr(ctx, 'kani', []) + res
    return failed


def run(ctx):
    T = ctx.thorough()
    ctx.bounds = dict({}, **{
        'kani nodes': 'UntrackedSymbol, TypeDef{Sequence,Array,Primitive,Compact,BitSequence} (all scalars symbolic), Field (4 presence shapes), TypeParameter (2), Tuple (3 ids), empty Composite/Variant/Tuple, PortableType; <= 48 encoded bytes',
        'mirsym registries': 'one entry of every kind with ids over the full u32 range; strings of 0/1/2 bytes; vectors <= 2; seeded two-entry registries (see harness list)'})
    ctx.outside = ['vectors of structs (Vec<Field>, Vec<Variant>) on the real codec time out in CBMC (composite with one field: > 300 s); their composition is decided in engine M on the derived MIR with modelled Vec/String/Option encoders',
                   'registries beyond the stated sizes']
    ctx.assumptions = ['Kani stubs: none; unwinding assertions on; memory-safety checks on', 'mirsym codec-primitive models (validated against the real crate under C07)']
    # ---- engine K
    failed = run_kani(ctx, QUICK + (THOROUGH_EXTRA if T else []), 900 if T else 300, 'lib.encode_to == reference encoder')
    if failed:
        # a failed Kani harness is decisive on its own: confirm it natively before the (possibly no longer applicable) MIR part runs
        a = ctx.get_native().ask({'op': 'layout_battery', 'seed': ctx.seed})
        if a.get('failed'):
            ctx.report_case({'what': 'layout', 'kani_failed': [(f['harness'], f.get('failed_checks')) for f in failed], 'native': a['failed'][:3]}, True, None)
            return finish(ctx, 'model_checking', 'Kani differential harness failed and the native layout battery reproduces a difference from the reference encoder/decoder.',
                          extra_cov={'kani': [{k: r.get(k) for k in ('harness', 'verdict', 'wall_s', 'solver_s')} for r in getattr(ctx, 'kani', [])], 'states': 1, 'transitions': 1})
    # ---- engine M
    ctx.bounds['vector lengths in the length-abstraction harnesses (Type, Variant, Field, PortableRegistry)'] = 'every length < 2^32: exact compact length prefix, then the elements; elements opaque'
    cexs = c07.run_lengths(ctx, ('C06',))
    cexs += c07.run_plan(ctx, ('C06',), ('ref_encode', 'ref_decode'))
    c07.finish_cases(ctx, cexs, ('C06',))
    if getattr(ctx, 'unreproduced', None) and not ctx.violations and not failed: raise CheckInconclusive('solver model does not reproduce natively (encoding error?): ' + json.dumps(ctx.unreproduced[0])[:800])
    if getattr(ctx, 'deferred', None) and not ctx.violations and not failed:
        raise CheckInconclusive('part of the check cannot be executed on the current code and no violation was found by the rest: ' + '; '.join(ctx.deferred)[:1500])
    if failed and not ctx.violations:
        # a failed Kani harness is reported through the native layout battery (same reference encoder, concrete corpus)
        a = ctx.get_native().ask({'op': 'layout_battery', 'seed': ctx.seed})
        if a.get('failed'):
            ctx.report_case({'what': 'layout', 'kani_failed': [f['harness'] for f in failed], 'native': a['failed'][:3]}, True, None)
        else:
            raise CheckInconclusive('kani harness(es) failed %s but the native layout battery does not reproduce a difference' % [f['harness'] for f in failed])
    if not ctx.violations:
        a = ctx.get_native().ask({'op': 'layout_battery', 'seed': ctx.seed})
        if a.get('failed') or a.get('panic'): raise CheckInconclusive('native layout battery fails although all obligations were discharged: ' + json.dumps(a)[:800])
        ctx.validated += a.get('cases', 0)
    ctx.samples.append({'kani harness': 'c06_def_array', 'claim': 'forall len: u32, id: u32: TypeDef::Array.encode_to == [3] ++ len.to_le_bytes() ++ compact(id)', 'verdict': 'SUCCESSFUL (unwinding assertions on)'})
    ks = getattr(ctx, 'kani', [])
    return finish(ctx, 'model_checking',
                  'Kani/CBMC differential harnesses on the compiled crate (library encode_to vs a reference encoder written from the layout, fixed-array Output) for every layout node with symbolic scalars, '
                  'plus bounded symbolic execution of the derived Encode MIR of whole symbolic registries against independent reference encoder/decoder (mirsym + z3).',
                  extra_cov={'kani': [{k: r.get(k) for k in ('harness', 'verdict', 'wall_s', 'solver_s', 'covers', 'checks')} for r in ks], 'kani_solver_s': round(sum((r.get('solver_s') or 0) for r in ks), 1)})


def replay(ctx, path):
    return c07.replay(ctx, path)
