"""C01 - every produced registry is dense (id == index) and closed under references.

(a) Registry after any registration history: rely/guarantee step of register_type from MIR + side obligations + From<Registry> unrolled.
(b) runtime builder: finish lists value i at position i with id i (shared harness with C12).
(c) retain: result well-formed (the C10 exploration, exhaustive part, re-run here with the same oracle).
(d) decoding its own output: follows from C07 (decode(encode r) == r), not re-run here.
"""
import json
from lib.common import *
from lib import regstep
from checks import c10, c12


def collect(ctx, h, label, tag):
    """obligations relevant to property `tag`; returns the cex records whose failed obligations include a relevant one"""
    cex = []
    for r in h.results:
        pre = ('[%s] ' % r['cls']) if 'cls' in r else ''
        if r['kind'] in ('ok', 'cex'):
            for cj in r.get('conjuncts', []):
                if regstep.relevant(cj, tag): ctx.obligations[pre + cj.split('|')[-1]] = 'unsat'
        if r['kind'] == 'cex':
            rel = [cj for cj in r.get('failed', [label]) if regstep.relevant(cj, tag)]
            for cj in rel: ctx.obligations[pre + cj.split('|')[-1]] = 'sat'
            if rel: cex.append(dict(r, failed=[cj.split('|')[-1] for cj in rel]))
    return cex


def registry_part(ctx, nmax, tag):
    """shared by C01, C05, C11: step, side obligations, From<Registry>, vacuity and negative controls. returns list of cex dicts"""
    cexs = []
    ctx.deferred = getattr(ctx, 'deferred', [])
    def attempt(name, body, **kw):
        try:
            return run_harness(ctx, name, body, **kw)
        except CheckInconclusive as e:
            ctx.deferred.append('%s: %s' % (name, str(e)[:260]))
            if ctx.harnesses and ctx.harnesses[-1].name == name: ctx.harnesses.pop()
            return None
    h = attempt('register_type-step', regstep.body_register_type())
    if h is not None:
        cexs += collect(ctx, h, 'register_type step', tag)
        classes = {r.get('cls') for r in h.results}
        if not cexs and classes != {'known', 'new'}: raise CheckInconclusive('vacuity: register_type paths reached: %s' % classes)
    h = run_harness(ctx, 'side-obligations', regstep.body_side(), jobs=1)
    cexs += collect(ctx, h, 'side obligations', tag)
    for n in range(nmax + 1):
        h = attempt('from-registry-%d' % n, regstep.body_from_registry(n), jobs=1)
        if h is None: continue
        c = [r for r in h.results if r['kind'] == 'cex']; cexs += c
        ctx.obligations['From<Registry>: entry i carries id i and definition i, n=%d' % n] = 'sat' if c else 'unsat'
    # bounded black-box histories on the real Registry (independent of the representation the step assumes)
    # the long history is longer than every size constant found in the code of the registry / interner (thresholds of size-dependent fast paths)
    thr = size_threshold()
    nlong = max(24 if ctx.thorough() else 20, thr + 4)
    ctx.bounds['long black-box history'] = '%d pairwise distinct types (largest size constant in interner/registry/portable code: %d)' % (nlong, thr)
    for n in (1, 2, 3, nlong):
        h = attempt('registry-history-%d' % n, regstep.body_registry_history(n), timeout=600 if n == nlong else None)
        if h is None: continue
        cexs += collect(ctx, h, 'registry history', tag)
    # nested registration: one root whose conversion registers the next type, ... - deeper than twice every size constant in the code
    depth = max(40, 2 * thr + 4)
    ctx.bounds['nested registration chain'] = 'depth %d' % depth
    h = attempt('registry-chain-%d' % depth, regstep.body_registry_chain(depth), timeout=900, jobs=1)
    if h is not None: cexs += collect(ctx, h, 'registry chain', tag)
    # negative controls: a wrong post-condition must be refuted; dropping a needed hypothesis must make the step fail (hypotheses are used, not vacuous)
    hn = attempt('negative-control-id', regstep.body_register_type(wrong='id'))
    if hn is not None:
        ctx.harnesses.pop()
        if not any(r['kind'] == 'cex' for r in hn.results): raise CheckInconclusive('negative control (id == n+1) not refuted')
    hn = attempt('negative-control-hyp', regstep.body_register_type(drop=2))
    if hn is not None:
        ctx.harnesses.pop()
        if not any(r['kind'] == 'cex' for r in hn.results): raise CheckInconclusive('negative control (step without the "defined ids are interned" hypothesis) still passes: obligations vacuous')
    ctx.notes.append('negative controls refuted: wrong post-condition; step with a needed invariant conjunct removed')
    ctx.samples.append({'obligation': '[new] no existing definition overwritten', 'hypotheses': 'INV(s0), R(s1,s2), INV(s2) instantiated at the returned id and skolems', 'verdict': 'unsat'})
    return cexs


def confirm_registry(ctx, cexs, which):
    """a failed step obligation is reported only if the native registration-law battery fails too"""
    if not cexs:
        if getattr(ctx, 'deferred', None):
            raise CheckInconclusive('part of the check cannot be executed on the current code and no violation was found by the rest: ' + '; '.join(ctx.deferred)[:1500])
        return
    a = ctx.get_native().ask({'op': 'registry_laws', 'seed': ctx.seed})
    failing = [f for f in a.get('failed', []) if which is None or f.get('law') in which]
    if a.get('panic') or a.get('crashed'): failing = [{'law': 'panic', 'history': 'registry_laws battery panicked'}]
    if not failing:
        raise CheckInconclusive('step obligation(s) failed: %s - but no native registration history reproduces a violation (invariant too weak, or a violation outside the native battery)' % json.dumps([c.get('failed') for c in cexs])[:1500])
    for f in failing[:3]:
        ctx.report_case({'what': 'registry_laws', 'law': f.get('law'), 'history': f.get('history'), 'detail': f.get('detail'), 'symbolic_obligations_failed': [c.get('failed') for c in cexs][:4]}, True, None)


def replay(ctx, path):
    case = json.load(open(path))
    if case.get('what') == 'retain': return c10.replay(ctx, path)
    a = ctx.get_native().ask({'op': 'registry_laws', 'seed': ctx.seed})
    rep = any(f.get('law') == case.get('law') for f in a.get('failed', [])) or a.get('panic') or a.get('crashed')
    print('REPRODUCED' if rep else 'NOT-REPRODUCED', json.dumps(case)[:300]); return 1 if rep else 0


def run(ctx):
    T = ctx.thorough()
    nmax = 6 if T else 4
    ctx.bounds = {'registration histories': 'any length below 2^32 registered types (inductive step from an arbitrary state)', 'From<Registry> / finish unrolled': nmax,
                  'retain': 'exhaustive n<=2 entries, <=1 element per vector (all kinds, ids, filters); 3 fixed shapes with 2-3 type parameters per type (every presence combination); deeper bounds under C10'}
    ctx.outside = ['registries with 2^32 or more types', 'termination of registration on cyclic type graphs (argued, see DESIGN.md C02)', 'decoded registries (C07)']
    ctx.assumptions = ['into_portable bodies touch the registry only through register_type / register_types / map_into_portable (call-log obligation of C02)',
                       'rely condition R for nested conversions; proved reflexive, transitive and implied by the guarantee (induction on call depth)',
                       'type_info() results are opaque: nothing is assumed about type graphs']
    cexs = registry_part(ctx, nmax, 'C01')
    confirm_registry(ctx, cexs, ('dense', 'closed', 'faithful', 'panic'))
    # (b) builder
    for n in range(nmax + 1):
        h = run_harness(ctx, 'builder.finish-%d' % n, c12.body_finish(n), subst=c12.SUBST, jobs=1)
        for r in h.results:
            if r['kind'] == 'cex':
                rep, _ = c12.replay_case(ctx, {k: v for k, v in r.items() if k != 'kind'}); ctx.report_case({k: v for k, v in r.items() if k != 'kind'}, rep, None)
        ctx.obligations['builder finish: position i carries id i, n=%d' % n] = 'unsat' if not h.kinds.get('cex') else 'sat'
    # (c) retain
    rc = []
    for n in (1, 2):
        for k in (range(8) if n == 2 else [None]):
            for kp in ((True, False) if n == 2 else [None]):
                h = run_harness(ctx, 'retain-n%d-k%s-%s' % (n, k, kp), c10.body_retain(n, 1, 1, first_kind=(k, kp) if k is not None else None), models=c10.MODELS_C10)
                rc += [r for r in h.results if r['kind'] == 'cex']
    for j, tmpl in enumerate(c10.PTEMPL):
        h = run_harness(ctx, 'retain-params-%d' % j, c10.body_retain(len(tmpl), 1, 3, template=tmpl), models=c10.MODELS_C10)
        rc += [r for r in h.results if r['kind'] == 'cex']
    ctx.obligations['retain on a well-formed registry gives a dense, closed registry (n<=2 exhaustive, %d paths)' % sum(sum(h.kinds.values()) for h in ctx.harnesses if h.name.startswith('retain-'))] = 'sat' if rc else 'unsat'
    seen = set()
    for c in rc:
        case = {'what': 'retain', 'types': c['types'], 'keep': c['keep'], 'problem': c['problem']}
        key = json.dumps([case['types'], case['keep']], sort_keys=True)
        if key in seen: continue
        seen.add(key)
        rep, role = c10.replay_case(ctx, case); ctx.report_case(case, rep, role)
        if len(ctx.violations) >= 3: break
    if not ctx.violations:
        a = ctx.get_native().ask({'op': 'registry_laws', 'seed': ctx.seed})
        rel = [x for x in a.get('failed', []) if x.get('law') in ('dense', 'closed')]
        if rel or a.get('panic') or a.get('crashed'): raise CheckInconclusive('native registration-law battery fails although every symbolic obligation was discharged: ' + json.dumps(rel or a)[:1200])
        ctx.validated += a.get('histories', 0)
    return finish(ctx, 'other',
                  'Inductive rely/guarantee step of Registry::register_type executed from MIR (arbitrary pre-state as z3 arrays under the representation invariant; nested conversion havocked under R), '
                  'side obligations (R reflexive/transitive, density and closedness at quiescence), From<Registry> and builder finish unrolled, retain explored on symbolic registries. '
                  'Quantified hypotheses are used through ground instances (sound for unsat). Not called a proof: invariant, models and interpreter are not machine-checked.')
