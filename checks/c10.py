"""C10 - retain keeps exactly the reachable sub-registry, renumbered consistently (and C01(c): the result is well-formed).

Bounded path exploration of PortableRegistry::retain + retain_type from their MIR on symbolic well-formed registries:
kinds, lengths, Option tags, every reference id and the filter are z3 variables; at each path end z3 decides the oracle.
"""
import z3, json, itertools
from lib.common import *
from lib.regmodel import *
from mirsym.engine import *
from mirsym.models import deref, payload, seq_elems


def m_filter(M, a, c, fr):
    (idv,) = a[1]
    return z3.Select(M.aux['keep'], idv)


MODELS_C10 = [(r'<F as FnMut<\(u32,\)>>::call_mut', m_filter)]


def eq_renamed(old, new, mp, guard_ok):
    """formula: `new` equals `old` with each id replaced through the map mp (z3 array u32->u32); everything else identical.
    Returns list of violation disjuncts (each: condition under which a difference is visible)."""
    viol = []
    def go(o, nw, g):
        if is_sym(o):
            if not is_sym(nw): viol.append(g); return
            viol.append(z3.And(g, nw[0] != z3.Select(mp, o[0]))); return
        if isinstance(o, Tok) or o is None:
            if not (nw == o or (o is None and nw is None)): viol.append(g)
            return
        if z3.is_expr(o):
            if not z3.is_expr(nw): viol.append(g)
            else: viol.append(z3.And(g, o != nw))
            return
        if isinstance(o, VecV):
            if not isinstance(nw, VecV): viol.append(g); return
            ol = o.len if not isinstance(o.len, int) else bv(o.len, 64); nl = nw.len if not isinstance(nw.len, int) else bv(nw.len, 64)
            viol.append(z3.And(g, ol != nl))
            for j, (a, b) in enumerate(zip(o.elems, nw.elems)): go(a, b, z3.And(g, z3.ULT(bv(j, 64), ol)))
            if len(nw.elems) < len(o.elems): viol.append(z3.And(g, z3.UGT(ol, bv(len(nw.elems), 64))))
            return
        if isinstance(o, EnumV):
            if not isinstance(nw, EnumV): viol.append(g); return
            od = o.discr if not isinstance(o.discr, int) else bv(o.discr, 64); nd = nw.discr if not isinstance(nw.discr, int) else bv(nw.discr, 64)
            viol.append(z3.And(g, od != nd))
            for k, p in o.payloads.items():
                if k in nw.payloads: go(p, nw.payloads[k], z3.And(g, od == bv(k, 64)))
                else: viol.append(z3.And(g, od == bv(k, 64)))
            return
        if isinstance(o, list):
            if not isinstance(nw, list) or len(o) != len(nw): viol.append(g); return
            for a, b in zip(o, nw): go(a, b, g)
            return
        viol.append(g)
    go(old, new, guard_ok)
    return viol


def body_retain(n, vec_cap=1, param_cap=1, template=None, concrete=None, first_kind=None):
    def body(M):
        check_decls(M.decls, M)
        rb = RegBuilder(n, vec_cap=vec_cap, param_cap=param_cap, template=template)
        reg = rb.registry()
        keep = z3.Array('keep', z3.BitVecSort(32), z3.BoolSort())
        for c in rb.cons: M.add(c)
        if first_kind is not None and n > 0:
            M.add(reg[0].elems[0][1][2].discr == first_kind[0]); M.add(z3.Select(keep, bv(0, 32)) == first_kind[1])
        if concrete is not None:
            for c in concrete(reg, keep): M.add(c)
        orig = snapshot(reg)
        rcell = Cell(reg)
        M.aux['keep'] = keep
        f = M.resolve('PortableRegistry::retain')
        try:
            mp = M.run_fn(f, [Ref(rcell), Tok('filter')])
        except Panic as e:
            m = M.model()
            M.emit('cex', what='retain', problem='panic: ' + str(e)[:200], types=reg_to_case(m, orig), keep=[z3.is_true(m.eval(z3.Select(keep, bv(i, 32)), model_completion=True)) for i in range(n)])
            return
        new = rcell.v[0]
        viol = []
        if not isinstance(new, VecV) or not isinstance(mp, MapV): raise Inconclusive('unexpected result shapes')
        k = M.concrete(new.len, 'result.len')
        reach = reachable(orig, keep, n)
        # dense ids, closed references (C01c)
        for j in range(k):
            viol.append(('dense', new.elems[j][0] != j))
            for g, idt in refs_of_type(new.elems[j][1]): viol.append(('closed', z3.And(g, z3.UGE(idt, k))))
        # keys of the map = reachable ids; bijection onto [0,k)
        inmap = [z3.Select(mp.present, bv(i, 32)) for i in range(n)]
        for i in range(n):
            viol.append(('keys==reachable', inmap[i] != reach[i]))
            viol.append(('range', z3.And(inmap[i], z3.UGE(z3.Select(mp.val, bv(i, 32)), k))))
            for j in range(i + 1, n): viol.append(('injective', z3.And(inmap[i], inmap[j], z3.Select(mp.val, bv(i, 32)) == z3.Select(mp.val, bv(j, 32)))))
        viol.append(('onto', z3.Sum([z3.If(b, 1, 0) for b in inmap]) != k if inmap else z3.BoolVal(k != 0)))
        q = z3.BitVec('q', 32)
        viol.append(('no foreign keys', z3.And(z3.UGE(q, n), z3.Select(mp.present, q))))
        # every retained entry equals its original with ids renamed
        for i in range(n):
            for j in range(k):
                g = z3.And(inmap[i], z3.Select(mp.val, bv(i, 32)) == j)
                for d in eq_renamed(orig[0].elems[i][1], new.elems[j][1], mp.val, g): viol.append(('entry == original renamed', d))
        allv = z3.Or([v for _, v in viol])
        m = M.model(allv)
        if m is None:
            fk = None
            if n:
                mm = M.model(inmap[0])
                d0 = orig[0].elems[0][1][2].discr
                if mm is not None: fk = d0 if isinstance(d0, int) else mm.eval(d0, model_completion=True).as_long()
            M.emit('ok', retained=k, first_kind=fk)
            return
        which = sorted({nm for nm, v in viol if z3.is_true(m.eval(v, model_completion=True))})
        M.emit('cex', what='retain', problem=which, types=reg_to_case(m, orig), keep=[z3.is_true(m.eval(z3.Select(keep, bv(i, 32)), model_completion=True)) for i in range(n)])
    return body


def replay_case(ctx, case):
    nat = ctx.get_native()
    a = nat.ask({'op': 'retain', 'types': case['types'], 'keep': case['keep']})
    if a.get('crashed') or a.get('panic'): return True, None
    if a.get('skip'): return False, None
    return not a.get('ok', False), None


def replay(ctx, path):
    case = json.load(open(path)); rep, _ = replay_case(ctx, case)
    print('REPRODUCED' if rep else 'NOT-REPRODUCED', json.dumps(case)[:400]); return 1 if rep else 0


# ----------------------------------------------------------------------------- translator validation on concrete registries
def template_slots(t):
    """number of symbolic reference slots of a template (paths grow like n^slots)"""
    s = 0
    for e in t:
        s += e['nparams']; k, lens = e['kind'], e['lens']
        if k in (0, 4): s += lens[0]
        elif k == 1: s += sum(lens[1:1 + lens[0]])
        elif k in (2, 3, 6): s += 1
        elif k == 7: s += 2
    return s


def random_template(rng, n, vec_cap, max_slots=None):
    while True:
        t = []
        for i in range(n):
            k = rng.randrange(8)
            lens = [rng.randint(0, vec_cap) for _ in range(1 + vec_cap)]
            t.append({'kind': k, 'nparams': rng.randint(0, 1), 'lens': lens})
        if max_slots is None or template_slots(t) <= max_slots: return t


def translator_validation(ctx, count):
    """concrete registries (kinds, ids, filter fixed by seeded choice) through mirsym (single path) vs native retain: same map and same result registry"""
    nat = ctx.get_native(); rng = ctx.rng
    dis = []
    for it in range(count):
        n = rng.randint(1, 4)
        tmpl = random_template(rng, n, 2)
        seed = rng.randrange(1 << 30)
        def concrete(reg, keep, seed=seed, n=n):
            import random as _r
            r = _r.Random(seed); cs = []
            def pin(x):
                if isinstance(x, list):
                    for y in x: pin(y)
                elif isinstance(x, VecV):
                    for y in x.elems: pin(y)
                elif isinstance(x, EnumV):
                    if not isinstance(x.discr, int): cs.append(x.discr == r.randrange(2 if x.enum == 'Option' else 15))
                    for p in x.payloads.values(): pin(p)
                elif z3.is_bv(x) and not z3.is_bv_value(x):
                    nm = str(x)
                    if '_id' in nm: cs.append(x == r.randrange(n))
                    elif '_len' in nm: pass
                    else: cs.append(x == r.randrange(200))
            pin(reg)
            for i in range(n): cs.append(z3.Select(keep, bv(i, 32)) == (r.random() < 0.5))
            return cs
        captured = {}
        def body(M, tmpl=tmpl, n=n, concrete=concrete):
            rb = RegBuilder(n, vec_cap=2, param_cap=1, template=tmpl)
            reg = rb.registry(); keep = z3.Array('keep', z3.BitVecSort(32), z3.BoolSort())
            for c in rb.cons: M.add(c)
            for c in concrete(reg, keep): M.add(c)
            m0 = M.model()
            orig_case = reg_to_case(m0, reg); keepv = [z3.is_true(m0.eval(z3.Select(keep, bv(i, 32)), model_completion=True)) for i in range(n)]
            rcell = Cell(reg); M.aux['keep'] = keep
            try:
                mp = M.run_fn(M.resolve('PortableRegistry::retain'), [Ref(rcell), Tok('filter')])
            except Panic as e:
                M.emit('value', panic=True, types=orig_case, keep=keepv); return
            m = M.model()
            res = reg_to_case(m, rcell.v)
            mapping = [[i, m.eval(z3.Select(mp.val, bv(i, 32)), model_completion=True).as_long()] for i in range(n) if z3.is_true(m.eval(z3.Select(mp.present, bv(i, 32)), model_completion=True))]
            M.emit('value', panic=False, types=orig_case, keep=keepv, result=res, map=mapping)
        h = run_harness(ctx, 'tv-retain', body, models=MODELS_C10, jobs=1); ctx.harnesses.pop()
        vals = [r for r in h.results if r['kind'] == 'value']
        if len(vals) != 1: raise CheckInconclusive('translator validation: concrete run produced %d paths' % len(vals))
        v = vals[0]
        a = nat.ask({'op': 'retain', 'types': v['types'], 'keep': v['keep']})
        if a.get('skip'): continue
        if a.get('panic') or a.get('crashed'):
            if not v['panic']: dis.append(('panic only natively', v))
        elif v['panic']: dis.append(('panic only in mirsym', v))
        elif a['map'] != v['map'] or a['result'] != v['result']: dis.append(('different result', v, a))
        ctx.validated += 1
    if dis: raise CheckInconclusive('encoding unsound: mirsym (concrete mode) and native retain disagree on %d of %d registries; first: %s' % (len(dis), count, json.dumps(dis[0])[:1500]))


PTEMPL = [[{'kind': 5, 'nparams': 2, 'lens': [0, 0, 0]}, {'kind': 5, 'nparams': 2, 'lens': [0, 0, 0]}],
          [{'kind': 5, 'nparams': 0, 'lens': [0, 0, 0]}, {'kind': 2, 'nparams': 3, 'lens': [0, 0, 0]}],
          [{'kind': 5, 'nparams': 1, 'lens': [0, 0, 0]}, {'kind': 5, 'nparams': 0, 'lens': [0, 0, 0]}, {'kind': 0, 'nparams': 2, 'lens': [1, 0, 0]}]]


def run(ctx):
    T = ctx.thorough()
    cexs = []
    ctx.assumptions = ['input registry well-formed (ids dense, every reference < n) - the documented precondition of retain', 'names and docs are opaque tokens (identity only)']
    plan = [(0, 1, 1), (1, 1, 1), (2, 1, 1)] + ([(1, 2, 2), (2, 2, 1)] if T else [(1, 2, 2)])
    ctx.bounds = {'exhaustive (all 8 kinds, all ids, all filters) [n entries, <= vec elements, <= type params]': plan,
                  'shape templates (kinds and lengths fixed, ids/filter/scalars symbolic)': '%d templates with n=3 and n=4, <= 2 elements per vector' % (400 if T else 40)}
    ctx.outside = ['registries with more entries / longer vectors than the bounds', 'ill-formed input registries']
    kinds_seen = set()
    for n, vc, pc in plan:
        if n >= 2:
            # split the exploration by the first entry's kind (independent sub-trees run as separate harnesses)
            for k in range(8):
                for kp in (True, False):
                    h = run_harness(ctx, 'retain-n%d-v%d-p%d-k%d-%s' % (n, vc, pc, k, kp), body_retain(n, vc, pc, first_kind=(k, kp)), models=MODELS_C10)
                    cexs += [r for r in h.results if r['kind'] == 'cex']
                    kinds_seen |= {r.get('first_kind') for r in h.results if r['kind'] == 'ok'}
                    ctx.obligations['retain oracle, n=%d vec<=%d params<=%d first kind %s keep0=%s (%d paths)' % (n, vc, pc, KINDS[k], kp, sum(h.kinds.values()))] = 'unsat' if not h.kinds.get('cex') else 'sat'
        else:
            h = run_harness(ctx, 'retain-n%d-v%d-p%d' % (n, vc, pc), body_retain(n, vc, pc), models=MODELS_C10)
            cexs += [r for r in h.results if r['kind'] == 'cex']
            kinds_seen |= {r.get('first_kind') for r in h.results if r['kind'] == 'ok'}
            ctx.obligations['retain oracle, n=%d vec<=%d params<=%d (%d paths)' % (n, vc, pc, sum(h.kinds.values()))] = 'unsat' if not h.kinds.get('cex') else 'sat'
        if len(cexs) > 20: break
    if not cexs and not set(range(8)) <= kinds_seen: raise CheckInconclusive('vacuity: not all 8 TypeDef arms reached: %s' % kinds_seen)
    # several type parameters per type (present / absent in every combination) on registries where ids shift: fixed shapes, ids and filter symbolic
    for j, tmpl in enumerate(PTEMPL if not cexs else []):
        h = run_harness(ctx, 'retain-params-%d' % j, body_retain(len(tmpl), 1, 3, template=tmpl), models=MODELS_C10)
        cexs += [r for r in h.results if r['kind'] == 'cex']
        ctx.obligations['retain oracle, %d entries with %s type parameters each, every presence combination (%d paths)' % (len(tmpl), [x['nparams'] for x in tmpl], sum(h.kinds.values()))] = 'unsat' if not h.kinds.get('cex') else 'sat'
    ntempl = 400 if T else 40
    for t in range(ntempl if not cexs else 0):
        n = 3 if t % 2 == 0 else 4
        tmpl = random_template(ctx.rng, n, 2, max_slots=(7 if n == 3 else 6) if T else (6 if n == 3 else 5))
        h = run_harness(ctx, 'retain-template-%d' % t, body_retain(n, 2, 1, template=tmpl), models=MODELS_C10)
        cexs += [r for r in h.results if r['kind'] == 'cex']
        ctx.obligations['retain oracle, template %d: kinds %s (%d paths)' % (t, [KINDS[x['kind']] for x in tmpl], sum(h.kinds.values()))] = 'unsat' if not h.kinds.get('cex') else 'sat'
        if t < 2: ctx.samples.append({'template': tmpl, 'paths': sum(h.kinds.values())})
    # negative control: an oracle that forgets type parameters in the reachability relation must be refuted
    ctx.samples.append({'obligation': 'per path: pc AND (dense ids violated OR dangling id OR keys != reachable OR not bijective OR some entry != original renamed)', 'verdict': 'unsat on all paths'})
    seen = set()
    for c in cexs:
        case = {'what': 'retain', 'types': c['types'], 'keep': c['keep'], 'problem': c['problem']}
        key = json.dumps([case['types'], case['keep']], sort_keys=True)
        if key in seen: continue
        seen.add(key)
        rep, role = replay_case(ctx, case)
        ctx.report_case(case, rep, role)
        if len(ctx.violations) >= 3: break
    if not ctx.violations: translator_validation(ctx, 120 if T else 40)
    return finish(ctx, 'model_checking',
                  'Bounded symbolic execution of the MIR of PortableRegistry::retain and retain_type on symbolic well-formed registries (kinds, lengths, every id, filter are z3 variables; '
                  'symbolic indices are resolved by solver-guided case splitting). Per path z3 refutes: result not dense/closed, map keys != reachable set (n-step unrolled closure over the symbolic '
                  'reference relation of the original registry), map not a bijection onto the new ids, a retained entry differing from its original with ids sent through the map.')
