"""C14 - decoding untrusted registry bytes never panics and is canonical (partial: see outside_the_claim).

(1) The derived Decode MIR of PortableRegistry - and of every inner node as its own entry point - is executed on a buffer of L free
    bytes for every L <= N (codec primitives modelled including their error behaviour).  Oracle: no panic edge is feasible; on every
    Ok path re-encoding the decoded value through the derived Encode MIR reproduces exactly the consumed prefix (canonical).
(2) PortableRegistry::resolve from MIR: None iff id >= len, never a panic.
(3) scalar leaves on the real codec: Kani harnesses (see C06/kani).
"""
import z3, json
from lib.common import *
from lib.regmodel import *
from mirsym.engine import *
from mirsym.models import deref, payload, seq_elems, is_variant
from mirsym.codec_models import CODEC_MODELS, CODEC_SUBST, InBuf, OutBuf

ENTRIES = {'PortableRegistry': 'PortableRegistry', 'PortableType': 'PortableType', 'Type': 'ty::Type<PortableForm>', 'TypeDef': 'ty::TypeDef<PortableForm>', 'Field': 'fields::Field<PortableForm>',
           'Variant': 'variant::Variant<PortableForm>', 'TypeParameter': 'ty::TypeParameter<PortableForm>', 'Path': 'ty::path::Path<PortableForm>'}


def body_decode(entry, L, split=None):
    def body(M):
        bs = [z3.BitVec('b%d' % i, 8) for i in range(L)]
        if split is not None and L > 0:
            lo, hi = split; M.add(z3.UGE(bs[0], lo)); M.add(z3.ULE(bs[0], hi))
        inp = InBuf(bs)
        def case(m, **kw): return dict(kw, what='decode', entry=entry, bytes=[m.eval(b, model_completion=True).as_long() for b in bs])
        M.aux['alloc_requests'] = []
        def alloc_cex():
            # memory clause: no up-front request for more than 64 Ki + 4 Ki per input byte ELEMENTS (>= that many bytes; a compact prefix of k bytes can announce 2^(8k-2) elements)
            for rq in M.aux['alloc_requests']:
                if not z3.is_bv(rq): continue
                rq64 = rq if rq.size() == 64 else z3.ZeroExt(64 - rq.size(), rq)
                m = None
                for thr in (1 << 28, 1 << 20, 65536 + 4096 * L):       # the largest feasible request makes the clearest counterexample
                    m = M.model(z3.UGT(rq64, thr))
                    if m is not None: break
                if m is not None:
                    M.emit('cex', **case(m, problem='allocation: room for %d elements requested up front from a %d-byte input' % (m.eval(rq64, model_completion=True).as_long(), L))); return True
            return False
        try:
            r = M.run_fn(M.resolve('<%s as Decode>::decode' % ENTRIES[entry]), [Ref(Cell(inp))])
        except Panic as e:
            M.emit('cex', **case(M.model(), problem='panic: ' + str(e)[:160])); return
        if alloc_cex(): return
        if is_variant(M, r, 1, 'decode.result'):
            M.emit('ok', outcome='err'); return
        val = payload(r, 0)[0]
        out = OutBuf()
        try:
            M.run_fn(M.resolve('<%s as Encode>::encode_to' % ENTRIES[entry]), [Ref(Cell(val)), Ref(Cell(out))])
        except Panic as e:
            M.emit('cex', **case(M.model(), problem='panic while re-encoding: ' + str(e)[:160])); return
        used = inp.pos
        if len(out.bytes) != used:
            M.emit('cex', **case(M.model(), problem='not canonical: consumed %d bytes, re-encodes to %d' % (used, len(out.bytes)))); return
        m = M.model(z3.Or([a != b for a, b in zip(out.bytes, bs[:used])])) if used else None
        if m is not None:
            M.emit('cex', **case(m, problem='not canonical: re-encoding differs from the consumed bytes')); return
        M.emit('ok', outcome='ok', consumed=used, full=(used == L))
    return body


def body_resolve(cap):
    def body(M):
        n = z3.BitVec('n', 64); M.add(z3.ULE(n, cap))
        toks = [Tok('ty%d' % i) for i in range(cap)]
        # the id FIELDS of the entries are arbitrary: a decoded (untrusted) registry need not be dense
        idf = [z3.BitVec('idfield%d' % i, 32) for i in range(cap)]
        reg = Cell([VecV(n, [[idf[i], toks[i]] for i in range(cap)])])
        idv = z3.BitVec('id', 32)
        def fields(m): return [m.eval(x, model_completion=True).as_long() for x in idf][:m.eval(n, model_completion=True).as_long()]
        try:
            r = M.run_fn(M.resolve('PortableRegistry::resolve'), [Ref(reg), idv])
        except Panic as e:
            m = M.model(); M.emit('cex', what='resolve', n=m.eval(n, model_completion=True).as_long(), id=m.eval(idv, model_completion=True).as_long(), id_fields=fields(m), problem='panic'); return
        inr = z3.ULT(z3.ZeroExt(32, idv), n)
        if r.discr == 0: bad = inr
        else:
            got = deref(M, payload(r, 1)[0])
            bad = z3.Or(z3.Not(inr), z3.Or([z3.And(idv == i, z3.BoolVal(got != toks[i])) for i in range(cap)]), z3.UGE(idv, cap))
        m = M.model(bad)
        if m is not None: M.emit('cex', what='resolve', n=m.eval(n, model_completion=True).as_long(), id=m.eval(idv, model_completion=True).as_long(), id_fields=fields(m), problem='wrong answer')
        else: M.emit('ok', some=(r.discr == 1))
    return body


# ----------------------------------------------------------------------------- (4) JSON half at the serde data-model level: single-point corruptions of valid documents
def doc_sites(j, path=()):
    yield path, j
    if j[0] == 'obj':
        for i, (k, v) in enumerate(j[1]): yield from doc_sites(v, path + (('k', i),))
    elif j[0] == 'arr':
        for i, v in enumerate(j[1]): yield from doc_sites(v, path + (('i', i),))


def doc_replace(j, path, f):
    """copy of j with the node at path replaced by f(node) (f may return None = delete from its container)"""
    if not path: return f(j)
    kind, i = path[0]
    items = list(j[1])
    if kind == 'k':
        k, v = items[i]; nv = doc_replace(v, path[1:], f)
        if nv is None: del items[i]
        else: items[i] = (k, nv)
    else:
        nv = doc_replace(items[i], path[1:], f)
        if nv is None: del items[i]
        else: items[i] = nv
    return (j[0], items)


def doc_mutations(j):
    """(description, mutated document)"""
    n = [0]
    def sym():
        n[0] += 1; return z3.BitVec('jn%d' % n[0], 64)
    for path, node in doc_sites(j):
        if path:
            yield 'delete %s' % (path,), doc_replace(j, path, lambda x: None)
        for name, repl in (('null', ('null',)), ('number', ('num', sym())), ('string', ('str', Tok('junk'))), ('empty array', ('arr', [])), ('empty object', ('obj', []))):
            if node[0] != repl[0] or node[0] in ('num',): yield 'replace %s by %s' % (path, name), doc_replace(j, path, lambda x, r=repl: r)
        if node[0] == 'obj':
            yield 'unknown key in %s' % (path,), doc_replace(j, path, lambda x: ('obj', list(x[1]) + [('zzUnknown', ('num', sym()))]))
            for i, (k, v) in enumerate(node[1]):
                yield 'duplicate key %s in %s' % (k, path), doc_replace(j, path, lambda x, i=i: ('obj', list(x[1]) + [x[1][i]]))
                yield 'rename key %s in %s' % (k, path), doc_replace(j, path, lambda x, i=i: ('obj', [(kk if ii != i else kk + 'X', vv) for ii, (kk, vv) in enumerate(x[1])]))
        if node[0] == 'arr' and node[1]:
            yield 'duplicate element in %s' % (path,), doc_replace(j, path, lambda x: ('arr', list(x[1]) + [x[1][0]]))


def body_json_corrupt(template):
    from checks import c08
    from lib.regmodel import RegBuilder, check_decls
    def body(M):
        check_decls(M.decls, M)
        M.aux['const_hook'] = lambda M, s: (Tok('const:' + s.split('::')[-1]) if re.search(r'::(FIELDS|VARIANTS)$', s) or '__FieldVisitor' in s or '__Visitor' in s else NotImplemented)
        rb = RegBuilder(len(template), vec_cap=1, param_cap=1, template=template, full_ids=True)
        rb.docs = lambda: rb.vec(lambda: rb.tok('doc'), fixed=1)
        rb.path = lambda: [rb.vec(lambda: rb.tok('seg'), fixed=1)]
        reg = rb.registry(symbolic_ids=True)
        for c in rb.cons: M.add(c)
        r = M.run_fn(M.resolve('<PortableRegistry as Serialize>::serialize'), [Ref(Cell(reg)), Tok('serializer')])
        doc = payload(r, 0)[0]
        outcomes = {'ok': 0, 'err': 0}
        for desc, mdoc in doc_mutations(doc):
            try:
                rr = M.call("<PortableRegistry as Deserialize<'_>>::deserialize::<__D>", [c08.JDe(mdoc)])
                outcomes['ok' if is_variant(M, rr, 0, 'json.result') else 'err'] += 1
            except Panic as e:
                m = M.model()
                M.emit('cex', what='json_decode', mutation=desc, json=c08.jshow(m, mdoc), problem='panic: ' + str(e)[:160]); return
        M.emit('ok', outcome='json', mutations=outcomes['ok'] + outcomes['err'], accepted=outcomes['ok'], rejected=outcomes['err'])
    return body


def replay_case(ctx, case):
    nat = ctx.get_native()
    if case['what'] == 'json_decode':
        a = nat.ask({'op': 'json_decode', 'json': case['json']}); return bool(a.get('panic') or a.get('crashed')), None
    if case['what'] == 'resolve':
        a = nat.ask({'op': 'resolve', 'n': case['n'], 'id': case['id'], 'id_fields': case.get('id_fields')}); return (a.get('panic') or a.get('crashed') or not a.get('ok', False)), None
    a = nat.ask({'op': 'decode_bytes', 'entry': case['entry'], 'bytes': case['bytes']})
    if a.get('panic') or a.get('crashed'): return True, None
    if a.get('decoded') and not a.get('canonical'): return True, None
    # memory clause: the largest single allocation request while decoding (tracking allocator of the replay binary; > 256 MiB aborts = crashed)
    if str(case.get('problem', '')).startswith('allocation') and a.get('max_alloc', 0) > 65536 + 4096 * len(case['bytes']): return True, None
    return False, None


def replay(ctx, path):
    case = json.load(open(path)); rep, _ = replay_case(ctx, case)
    print('REPRODUCED' if rep else 'NOT-REPRODUCED', json.dumps(case)[:300]); return 1 if rep else 0


def translator_validation(ctx, count):
    """concrete byte strings (valid encodings, truncations, bit flips, random bytes): Ok/Err verdict and consumed length of mirsym's decode vs the real crate"""
    nat = ctx.get_native(); rng = ctx.rng
    seeds = []
    for _ in range(count // 3):
        n = rng.randint(0, 2)
        tmpl = [{'kind': rng.randrange(8), 'nparams': rng.randint(0, 1), 'lens': [rng.randint(0, 1) for _ in range(3)]} for _ in range(n)]
        seeds.append(('valid', tmpl, rng.randrange(1 << 30)))
    vecs = []
    from checks import c07
    for kind, tmpl, seed in seeds:
        def body(M, tmpl=tmpl, seed=seed):
            import random as _r
            r = _r.Random(seed)
            rb, reg = c07.build_registry(len(tmpl), 1, 1, [0, 1], tmpl, 'full', seed)
            for c in rb.cons: M.add(c)
            for idv in rb.ids: M.add(z3.Or([idv == x for x in (r.randrange(64), 63, 64, 16384, (1 << 30) + r.randrange(1000), r.randrange(1 << 32))]))
            pin_to_model(M, M.model(), reg)
            out = OutBuf()
            M.run_fn(M.resolve('<PortableRegistry as Encode>::encode_to'), [Ref(Cell(reg)), Ref(Cell(out))])
            m = M.model()
            M.emit('value', bytes=[m.eval(b, model_completion=True).as_long() for b in out.bytes])
        h = run_harness(ctx, 'tv-gen', body, models=CODEC_MODELS, subst=CODEC_SUBST, jobs=1); ctx.harnesses.pop()
        v = [r for r in h.results if r['kind'] == 'value']
        if v: vecs.append(v[0]['bytes'])
    muts = []
    for b in vecs:
        muts.append(b)
        if b:
            muts.append(b[:rng.randrange(len(b))])
            c = list(b); c[rng.randrange(len(c))] ^= 1 << rng.randrange(8); muts.append(c)
            c = list(b); c.insert(rng.randrange(len(c) + 1), rng.randrange(256)); muts.append(c)
    for _ in range(count // 4): muts.append([rng.randrange(256) for _ in range(rng.randint(0, 12))])
    dis = []
    for b in muts[:count]:
        if len(b) > 40: continue
        def body(M, b=b):
            inp = InBuf([bv(x, 8) for x in b])
            try:
                r = M.run_fn(M.resolve('<PortableRegistry as Decode>::decode'), [Ref(Cell(inp))])
                M.emit('value', ok=(r.discr == 0), consumed=inp.pos, panic=False)
            except Panic:
                M.emit('value', ok=False, consumed=0, panic=True)
        h = run_harness(ctx, 'tv-decode', body, models=CODEC_MODELS, subst=CODEC_SUBST, jobs=1); ctx.harnesses.pop()
        v = [r for r in h.results if r['kind'] == 'value'][0]
        a = nat.ask({'op': 'decode_bytes', 'entry': 'PortableRegistry', 'bytes': b})
        if bool(a.get('decoded')) != v['ok'] or (v['ok'] and a.get('consumed') != v['consumed']) or bool(a.get('panic')) != v['panic']: dis.append((b, v, a))
        ctx.validated += 1
    if dis: raise CheckInconclusive('encoding unsound: mirsym (concrete mode) and the real decoder disagree on %d byte strings; first: %s' % (len(dis), json.dumps(dis[0])[:800]))


def run(ctx):
    T = ctx.thorough()
    N_reg, N_node = (10, 10) if T else (9, 8)
    ctx.bounds = {'PortableRegistry: buffer length (every byte free)': '<= %d' % N_reg, 'inner nodes as entry points (PortableType, Type, TypeDef, Field, Variant, TypeParameter, Path)': '<= %d' % N_node,
                  'resolve: registry length / id': '<= 3 / all u32'}
    ctx.outside = ['panic-freedom and allocation behaviour of parity-scale-codec\'s own Vec/String decoders on arbitrary input (modelled, not checked: CBMC cannot run them - DESIGN.md P10; no allocator model)',
                   'the JSON half is decided only at the serde data-model level (single-point corruptions of valid document trees through the derived Deserialize MIR); serde_json\'s text parser, multi-point corruptions and memory use are outside', 'inputs longer than the bounds (the smallest registry with one composite entry and one field is 12 bytes)',
                   'memory proportional to input: follows from the vector model (a length prefix larger than the remaining input is an error because every element type occupies at least one byte) - an assumption about the codec, not decided']
    ctx.assumptions = ['codec primitives as modelled in mirsym/codec_models.py incl. error behaviour (short input, bad Option tag, non-minimal compact, invalid UTF-8, oversized length prefix); validated against the real crate on concrete byte strings every run']
    cexs = []
    for entry, N in [('PortableRegistry', N_reg)] + [(e, N_node) for e in ENTRIES if e != 'PortableRegistry']:
        tot, oks = 0, 0
        for L in range(N + 1):
            h = run_harness(ctx, 'decode-%s-L%d' % (entry, L), body_decode(entry, L), models=CODEC_MODELS, subst=CODEC_SUBST)
            cexs += [r for r in h.results if r['kind'] == 'cex']
            tot += sum(h.kinds.values()); oks += sum(1 for r in h.results if r['kind'] == 'ok' and r['outcome'] == 'ok')
        ctx.obligations['decode %s from every buffer of <= %d bytes: no panic edge; Ok => canonical (%d paths, %d Ok paths)' % (entry, N, tot, oks)] = 'sat' if any(c.get('entry') == entry for c in cexs) else 'unsat'
        if oks == 0 and not cexs: raise CheckInconclusive('vacuity: no Ok path for ' + entry)
        if len(cexs) > 10: break
    # (4) JSON at the serde data-model level: every single-point corruption of valid documents goes through the derived Deserialize MIR without a panic edge
    from checks import c08
    tot_mut = 0
    for k in (range(8) if T else (0, 3, 5, 7)):
        hj = run_harness(ctx, 'json-corrupt-kind%d' % k, body_json_corrupt([{'kind': k, 'nparams': 1, 'lens': [1, 1, 1]}]), fs='serde', models=c08.SERDE_MODELS + c08.SERDE_DE_MODELS, subst=CODEC_SUBST)
        cexs += [r for r in hj.results if r['kind'] == 'cex']
        tot_mut += sum(r.get('mutations', 0) for r in hj.results if r['kind'] == 'ok')
    ctx.obligations['JSON (serde data model): %d single-point corruptions (delete / retype / unknown, duplicate, renamed key / duplicated element) of valid documents of every kind: Deserialize returns Ok or Err, no panic edge' % tot_mut] = 'sat' if any(c.get('what') == 'json_decode' for c in cexs) else 'unsat'
    h = run_harness(ctx, 'resolve', body_resolve(3))
    cexs += [r for r in h.results if r['kind'] == 'cex']
    ctx.obligations['resolve(id): None iff id >= len, Some(types[id].ty) otherwise, never panics (len <= 3, all u32 ids, arbitrary id fields in the entries)'] = 'sat' if h.kinds.get('cex') else 'unsat'
    # (3) scalar leaves on the real codec (engine K): no panic / overflow / out-of-bounds on arbitrary bytes, canonical, and equal to the Rust twins of mirsym's codec-primitive models
    from checks import c06
    LEAVES = ['leaf_compact_u32', 'leaf_symbol', 'leaf_array', 'leaf_bitsequence', 'leaf_primitive', 'leaf_sequence_compact', 'leaf_option_symbol', 'leaf_u32_u8']
    kfailed = c06.run_kani(ctx, LEAVES, 600, 'real codec leaf decoder on arbitrary bytes: no panic, canonical, == model twin')
    ctx.samples.append({'harness': 'decode-PortableRegistry-L%d' % N_reg, 'symbolic': 'b0..b%d free bytes' % (N_reg - 1), 'oracle': 'no feasible panic edge; on Ok: encode(decoded) == consumed prefix'})
    seen = set()
    for c in cexs:
        case = {k: v for k, v in c.items() if k != 'kind'}
        key = json.dumps(case, sort_keys=True)
        if key in seen: continue
        seen.add(key)
        rep, role = replay_case(ctx, case); ctx.report_case(case, rep, role)
        if len(ctx.violations) >= 3: break
    if kfailed and not ctx.violations:
        # a failed leaf harness is a solver counterexample on the compiled code: it is reported when a concrete input reproduces it natively
        # (non-canonical compact integers at every id position of the small nodes), otherwise the check is inconclusive
        nat = ctx.get_native()
        X = [[1, 0], [253, 0], [2, 0, 0, 0], [254, 255, 0, 0], [3, 0, 0, 0, 0], [3, 255, 255, 255, 63], [7, 0, 0, 0, 0, 0]]
        for x in X:
            for entry, bs in (('TypeDef', [2] + x), ('TypeDef', [3, 1, 0, 0, 0] + x), ('TypeDef', [6] + x), ('TypeDef', [7] + x + [0]), ('TypeDef', [7, 0] + x), ('TypeDef', [4, 4] + x),
                              ('Field', [0] + x + [0, 0]), ('TypeParameter', [4, 84, 1] + x), ('PortableType', x + [0, 0, 5, 0, 0]), ('PortableRegistry', [4] + x + [0, 0, 5, 0, 0])):
                a = nat.ask({'op': 'decode_bytes', 'entry': entry, 'bytes': bs})
                if a.get('panic') or a.get('crashed') or (a.get('decoded') and not a.get('canonical')):
                    ctx.report_case({'what': 'decode', 'entry': entry, 'bytes': bs, 'problem': 'not canonical (found by the Kani leaf harnesses %s on the compiled code)' % [f['harness'] for f in kfailed], 'native': a}, True, None)
                    break
            if len(ctx.violations) >= 2: break
        if not ctx.violations:
            raise CheckInconclusive('kani leaf harness failed (codec primitive behaves differently from the model or is not canonical) and no native input reproduces it: %s' % [(f['harness'], f.get('failed_checks')) for f in kfailed])
    if not ctx.violations: translator_validation(ctx, 80 if T else 40)
    return finish(ctx, 'model_checking',
                  'Bounded symbolic execution of the derived Decode MIR (and Encode MIR for the canonicity oracle) of PortableRegistry and each inner node on buffers whose every byte is a z3 variable; '
                  'z3 decides feasibility of every panic edge and refutes non-canonical Ok paths. PortableRegistry::resolve from MIR over all ids. Scalar leaf decoders of the real codec: Kani/CBMC on arbitrary bytes.',
                  extra_cov={'kani': [{k: r.get(k) for k in ('harness', 'verdict', 'wall_s', 'solver_s', 'covers', 'checks')} for r in getattr(ctx, 'kani', [])]})
