"""C15 - produced metadata does not depend on the enabled crate features (partial, by agreement with a common reference).

A configuration is a separate compilation, so the builds cannot be compared inside one solver query.  What is decided: under each feature
set F the MIR dumped with F satisfies the SAME configuration-independent specifications -
  (a) encode_F(registry) == reference V14 encoder, bytewise, on symbolic registries          (as C06, engine M)
  (b) into_portable_F(type) == structural image of the input                                   (as C02)
  (c) builders keep exactly what was supplied; docs(..) kept iff F contains `docs`, docs_always(..) always   (as C17)
hence encode_F == encode_F' and conversion_F == conversion_F' on those inputs by transitivity, and `docs` changes documentation strings only.
"""
import json
from lib.common import *
from lib.regmodel import KINDS
from checks import c02, c07, c17
from mirsym.codec_models import CODEC_MODELS, CODEC_SUBST


def dump_value(M, v):
    """canonical JSON of a value produced by a type_info() body (no symbolic inputs: everything is concrete or a named opaque constant)"""
    from mirsym.engine import Tok, ValSlice, VecV, EnumV, FnItem, Ref, ClosureV
    import z3
    if v is None: return None
    if isinstance(v, Tok): return {'tok': v.name}
    if isinstance(v, FnItem): return {'fn': v.name}
    if isinstance(v, ValSlice):
        if all(z3.is_bv_value(b) for b in v.elems) and getattr(v, 'is_str', False): return bytes(b.as_long() for b in v.elems).decode('utf-8', 'replace')
        return [dump_value(M, x) for x in v.elems]
    if isinstance(v, VecV): return [dump_value(M, x) for x in v.elems[:M.concrete(v.len, 'dump.len')]]
    if isinstance(v, EnumV):
        d = v.discr if isinstance(v.discr, int) else M.concrete(v.discr, 'dump.discr')
        return {'enum': v.enum, 'variant': d, 'fields': [dump_value(M, x) for x in v.payloads.get(d, [])]}
    if isinstance(v, Ref): return dump_value(M, M.load(v))
    if isinstance(v, list): return [dump_value(M, x) for x in v]
    if z3.is_expr(v):
        s = z3.simplify(v)
        return s.as_long() if z3.is_bv_value(s) else (bool(z3.is_true(s)) if z3.is_true(s) or z3.is_false(s) else str(s))
    return repr(v)


def body_typeinfo(fn, instance=0):
    """one built-in impl's type_info() executed from the MIR of this feature set; nested type_info() calls and const generics stay symbolic names"""
    import re, z3
    from mirsym.engine import Tok
    def body(M):
        M.aux['instance_index'] = instance; M.aux['tid_distinct'] = True
        M.models.insert(0, (re.compile(r'<.+ as TypeInfo>::type_info'), lambda M, a, c, fr: Tok('result-of:' + c)))
        M.aux['const_hook'] = lambda M, s: z3.BitVec('const-generic-' + s, 64) if re.fullmatch(r'[A-Z]\w*', s) else NotImplemented
        r = M.run_fn(fn, [])
        M.emit('ok', dump=dump_value(M, r))
    return body


def strip_docs(d):
    """dump of a Type<MetaForm> with every documentation list emptied (type, fields, variants, fields of variants)"""
    import copy
    d = copy.deepcopy(d)
    if not (isinstance(d, list) and len(d) == 4 and isinstance(d[2], dict)): return d
    d[3] = []
    def fields(fs):
        for f in fs:
            if isinstance(f, list) and len(f) == 4: f[3] = []
    td = d[2]
    if td.get('variant') == 0: fields(td['fields'][0][0])
    elif td.get('variant') == 1:
        for v in td['fields'][0][0]:
            if isinstance(v, list) and len(v) == 4: v[3] = []; fields(v[1])
    return d


def builtin_impls(fns, decls):
    """[(label, Fn, instance index)] for the type_info() of every impl TypeInfo in the crate, macro instances included"""
    out = []
    for f in list(fns.values()):
        if f.impl is None or f.method != 'type_info' or f.kind != 'fn': continue
        if decls.impl_info(f.impl).get('trait') != 'TypeInfo': continue
        label = '%s @%s:%d' % (decls.impl_info(f.impl)['self_full'], f.impl[0], f.impl[1])
        out.append((label, f, 0))
        for j, g in enumerate(getattr(fns, 'instances', {}).get(f.name, [])): out.append(('%s #%d' % (label, j + 1), g, j + 1))
    return out


def run(ctx):
    T = ctx.thorough()
    sets = ['default', 'nostd_decode', 'serde', 'docs'] + (['bitvec', 'all'] if T else [])
    ctx.bounds = {'feature sets': {s: ' '.join(FEATURESETS[s]) or '(default: std)' for s in sets}, 'per feature set': 'encoder vs reference on one-entry registries of every kind (ids < 64 and one full-range run), into_portable image for every kind (vectors <= 2), 10 builder skeletons per shape'}
    ctx.outside = ['type_info() of types outside the crate (derived or hand-written) in different configurations: the derive is a separate crate without features; the built-in impls are compared per configuration (d)', 'the schema feature (adds only JsonSchema impls; its MIR is not dumped: schemars is not needed by any encoded byte)',
                   'Kani harnesses run under the default feature set only']
    ctx.assumptions = ['the reference encoder / image / builder specifications are configuration independent (they are Python code outside the crate)']
    cexs = []
    # (d) the built-in impls: type_info() of every impl TypeInfo of the crate (macro instances included) has the same content in every configuration
    dumps = {}
    for fs in sets:
        fns, decls, _ = load_mir(fs)
        impls = builtin_impls(fns, decls)
        if len(impls) < 50: raise CheckInconclusive('only %d built-in TypeInfo impls found in the MIR of feature set %s' % (len(impls), fs))
        dumps[fs] = {}
        for label, f, j in impls:
            h = run_harness(ctx, '%s-typeinfo-%s' % (fs, label), body_typeinfo(f, j), fs=fs, models=c17.MODELS_C17, jobs=1)
            dumps[fs][label] = h.results[0].get('dump') if h.results and h.results[0]['kind'] == 'ok' else None
    base = dumps['default']
    for fs in sets[1:]:
        # with `docs` in the feature set only the documentation lists may differ
        norm = strip_docs if 'docs' in ' '.join(FEATURESETS[fs]) else (lambda d: d)
        diff = [l for l in sorted(set(base) | set(dumps[fs])) if (l in base) != (l in dumps[fs]) or json.dumps(norm(base.get(l)), sort_keys=True) != json.dumps(norm(dumps[fs].get(l)), sort_keys=True)]
        # bit-vec adds impls; everything present in both must agree, and nothing of the default set may be missing
        diff = [l for l in diff if l in base]
        ctx.obligations['[%s] type_info() of all %d built-in impls == default configuration' % (fs, len(base))] = 'sat' if diff else 'unsat'
        for l in diff[:3]: cexs.append(('typeinfo', fs, {'kind': 'cex', 'impl': l, 'default': base.get(l), 'this': dumps[fs].get(l)}))
    for fs in sets:
        docs_feature = 'docs' in ' '.join(FEATURESETS[fs])
        # (a)
        np = 0
        for k in range(8):
            h = run_harness(ctx, '%s-encode-%s' % (fs, KINDS[k]), c07.body_codec(n=1, vec_cap=1, param_cap=1, slen=1, template=[{'kind': k}], idmode='small' if k in (0, 1) else 'full', do=('ref_encode',)), fs=fs, models=CODEC_MODELS, subst=CODEC_SUBST)
            c = [r for r in h.results if r['kind'] == 'cex']; np += sum(h.kinds.values())
            for r in c: cexs.append(('encode', fs, r))
        ctx.obligations['[%s] encode == reference encoder, every kind (%d paths)' % (fs, np)] = 'sat' if any(x[1] == fs and x[0] == 'encode' for x in cexs) else 'unsat'
        # (e) decode(encode(v)) == v under this configuration (Decode exists with std or decode; cfg-dependent decode paths)
        # quick: the no_std configuration only (the other sets share the default configuration's `std` paths); thorough: every non-default set with Decode
        if fs != 'default' and ('decode' in ' '.join(FEATURESETS[fs]) or '--no-default-features' not in FEATURESETS[fs]) and (T or '--no-default-features' in FEATURESETS[fs]):
            np = 0
            for k in (2, 3, 4, 5, 6, 7, 0, 1):      # small kinds first; a decoder that misreads its input explodes on the big ones: stop at the first counterexample
                h = run_harness(ctx, '%s-roundtrip-%s' % (fs, KINDS[k]), c07.body_codec(n=1, vec_cap=1, param_cap=1, slen=1, template=[{'kind': k}], idmode='full' if k >= 2 else 'two-class', do=('roundtrip',)), fs=fs, models=CODEC_MODELS, subst=CODEC_SUBST, timeout=300)
                c = [r for r in h.results if r['kind'] == 'cex']; np += sum(h.kinds.values())
                for r in c[:3]: cexs.append(('roundtrip', fs, r))
                if c: break
            ctx.obligations['[%s] decode(encode(v)) == v, every kind (%d paths)' % (fs, np)] = 'sat' if any(x[1] == fs and x[0] == 'roundtrip' for x in cexs) else 'unsat'
        # (b)
        np = 0
        for k in range(8):
            h = run_harness(ctx, '%s-into_portable-%s' % (fs, KINDS[k]), c02.body_into_portable(2, k, caps={'variants': 2, 'vfields': 1}), fs=fs, models=c02.MODELS_C02)
            c = [r for r in h.results if r['kind'] == 'cex']; np += sum(h.kinds.values())
            for r in c: cexs.append(('image', fs, r))
        ctx.obligations['[%s] into_portable == structural image, every kind (%d paths)' % (fs, np)] = 'sat' if any(x[1] == fs and x[0] == 'image' for x in cexs) else 'unsat'
        # (c)
        np = 0
        for shape in ('composite', 'variant'):
            for j in range(10):
                h = run_harness(ctx, '%s-builder-%s-%d' % (fs, shape, j), c17.body_skeleton(ctx.seed * 7919 + j, docs_feature, shape), fs=fs, models=c17.MODELS_C17)
                c = [r for r in h.results if r['kind'] == 'cex']; np += sum(h.kinds.values())
                for r in c: cexs.append(('builder', fs, r))
        ctx.obligations['[%s] builders lossless; docs(..) kept: %s; docs_always(..) kept (%d paths)' % (fs, docs_feature, np)] = 'sat' if any(x[1] == fs and x[0] == 'builder' for x in cexs) else 'unsat'
    for what, fs, r in cexs[:6]:
        case = {'what': 'feature_dependence', 'aspect': what, 'feature_set': fs, 'flags': FEATURESETS[fs], 'detail': {k: v for k, v in r.items() if k not in ('kind', 'bytes')}}
        # native confirmation: the replay binary built with that feature set (docs) / default must show the difference
        feats = 'docs' if 'docs' in ' '.join(FEATURESETS[fs]) else ('nostd' if '--no-default-features' in FEATURESETS[fs] else None)
        nat = ctx.get_native(feats)
        if what == 'roundtrip':
            a = nat.ask({'op': 'layout_battery', 'seed': ctx.seed}); rep = bool(a.get('failed')) or bool(a.get('panic')) or bool(a.get('crashed'))
        elif what == 'typeinfo':
            a, b = ctx.get_native().ask({'op': 'corpus_bytes_nodocs'}), nat.ask({'op': 'corpus_bytes_nodocs'})
            rep = bool(a.get('sha')) and bool(b.get('sha')) and a.get('sha') != b.get('sha')
            case['native'] = {'default build': a, 'this build': b}
        elif what == 'encode': a = nat.ask({'op': 'layout_battery', 'seed': ctx.seed}); rep = bool(a.get('failed'))
        elif what == 'image': a = nat.ask({'op': 'registry_laws', 'seed': ctx.seed}); rep = any(f.get('law') == 'faithful' for f in a.get('failed', []))
        else: a = nat.ask({'op': 'builder_laws'}); rep = bool(a.get('failed'))
        if not rep and fs not in ('default', 'docs', 'nostd_decode'):
            raise CheckInconclusive('feature-dependent behaviour found symbolically under %s (%s) but the replay binary cannot be built with that feature set to confirm it: %s' % (fs, what, json.dumps(case)[:600]))
        ctx.report_case(case, rep, None)
    if not ctx.violations:
        for feats in (None, 'docs'):
            a = ctx.get_native(feats).ask({'op': 'layout_battery', 'seed': ctx.seed})
            if a.get('failed'): raise CheckInconclusive('native layout battery (features %s) fails: %s' % (feats, json.dumps(a)[:400]))
            ctx.validated += a.get('cases', 0)
        # docs changes documentation strings only: the two native builds must encode the law corpus identically once docs are stripped
        a, b = ctx.get_native().ask({'op': 'corpus_bytes_nodocs'}), ctx.get_native('docs').ask({'op': 'corpus_bytes_nodocs'})
        if a.get('sha') != b.get('sha') or not a.get('sha'): raise CheckInconclusive('native corpus differs between docs on/off beyond documentation strings: %s vs %s' % (a, b))
        c = ctx.get_native('nostd').ask({'op': 'corpus_bytes_nodocs'})
        if a.get('sha') != c.get('sha'): raise CheckInconclusive('native corpus differs between the std and the no_std build: %s vs %s' % (a, c))
        ctx.validated += 3
        ctx.notes.append('native cross-check: law corpus encoded with docs stripped is byte-identical in the docs-on and docs-off builds (sha %s)' % a.get('sha'))
    ctx.samples.append({'argument': 'forall F: encode_F(v) == ref(v)  =>  encode_F(v) == encode_F\'(v)', 'feature sets': sets})
    return finish(ctx, 'model_checking',
                  'Per feature set, bounded symbolic execution of the MIR dumped with that feature set against configuration-independent specifications (reference encoder, structural image, builder specification with docs gating); '
                  'agreement across configurations follows by transitivity. Partial: see outside_the_claim.')


def replay(ctx, path):
    case = json.load(open(path)); print('NOT-REPRODUCED (re-run ./check C15; feature-set cases are confirmed during the run)', json.dumps(case)[:200]); return 0
