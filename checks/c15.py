"""C15 - produced metadata does not depend on the enabled crate features (partial, by agreement with a common reference).

A configuration is a separate compilation, so the builds cannot be compared inside one solver query.  What is decided: under each feature
set F the MIR dumped with F satisfies the SAME configuration-independent specifications -
  (a) encode_F(registry) == reference V14 encoder, bytewise, on symbolic registries          (as C06, engine M)
  (b) into_portable_F(type) == structural image of the input                                   (as C02)
  (c) builders keep exactly what was supplied; docs(..) kept iff F contains `docs`, docs_always(..) always   (as C17)
hence encode_F == encode_F' and conversion_F == conversion_F' on those inputs by transitivity, and `docs` changes documentation strings only.
"""
import json
from lib.common import *
from lib.regmodel import KINDS
from checks import c02, c07, c17
from mirsym.codec_models import CODEC_MODELS, CODEC_SUBST


def run(ctx):
    T = ctx.thorough()
    sets = ['default', 'nostd_decode', 'serde', 'docs'] + (['bitvec', 'all'] if T else [])
    ctx.bounds = {'feature sets': {s: ' '.join(FEATURESETS[s]) or '(default: std)' for s in sets}, 'per feature set': 'encoder vs reference on one-entry registries of every kind (ids < 64 and one full-range run), into_portable image for every kind (vectors <= 2), 10 builder skeletons per shape'}
    ctx.outside = ['that type_info() of every concrete Rust type has the same content in every configuration except docs (no symbolic variable there; not decided)', 'the schema feature (adds only JsonSchema impls; its MIR is not dumped: schemars is not needed by any encoded byte)',
                   'Kani harnesses run under the default feature set only']
    ctx.assumptions = ['the reference encoder / image / builder specifications are configuration independent (they are Python code outside the crate)']
    cexs = []
    for fs in sets:
        docs_feature = 'docs' in ' '.join(FEATURESETS[fs])
        # (a)
        np = 0
        for k in range(8):
            h = run_harness(ctx, '%s-encode-%s' % (fs, KINDS[k]), c07.body_codec(n=1, vec_cap=1, param_cap=1, slen=1, template=[{'kind': k}], idmode='small' if k in (0, 1) else 'full', do=('ref_encode',)), fs=fs, models=CODEC_MODELS, subst=CODEC_SUBST)
            c = [r for r in h.results if r['kind'] == 'cex']; np += sum(h.kinds.values())
            for r in c: cexs.append(('encode', fs, r))
        ctx.obligations['[%s] encode == reference encoder, every kind (%d paths)' % (fs, np)] = 'sat' if any(x[1] == fs and x[0] == 'encode' for x in cexs) else 'unsat'
        # (b)
        np = 0
        for k in range(8):
            h = run_harness(ctx, '%s-into_portable-%s' % (fs, KINDS[k]), c02.body_into_portable(2, k, caps={'variants': 2, 'vfields': 1}), fs=fs, models=c02.MODELS_C02)
            c = [r for r in h.results if r['kind'] == 'cex']; np += sum(h.kinds.values())
            for r in c: cexs.append(('image', fs, r))
        ctx.obligations['[%s] into_portable == structural image, every kind (%d paths)' % (fs, np)] = 'sat' if any(x[1] == fs and x[0] == 'image' for x in cexs) else 'unsat'
        # (c)
        np = 0
        for shape in ('composite', 'variant'):
            for j in range(10):
                h = run_harness(ctx, '%s-builder-%s-%d' % (fs, shape, j), c17.body_skeleton(ctx.seed * 7919 + j, docs_feature, shape), fs=fs, models=c17.MODELS_C17)
                c = [r for r in h.results if r['kind'] == 'cex']; np += sum(h.kinds.values())
                for r in c: cexs.append(('builder', fs, r))
        ctx.obligations['[%s] builders lossless; docs(..) kept: %s; docs_always(..) kept (%d paths)' % (fs, docs_feature, np)] = 'sat' if any(x[1] == fs and x[0] == 'builder' for x in cexs) else 'unsat'
    for what, fs, r in cexs[:6]:
        case = {'what': 'feature_dependence', 'aspect': what, 'feature_set': fs, 'flags': FEATURESETS[fs], 'detail': {k: v for k, v in r.items() if k not in ('kind', 'bytes')}}
        # native confirmation: the replay binary built with that feature set (docs) / default must show the difference
        feats = 'docs' if 'docs' in ' '.join(FEATURESETS[fs]) else ('nostd' if '--no-default-features' in FEATURESETS[fs] else None)
        nat = ctx.get_native(feats)
        if what == 'encode': a = nat.ask({'op': 'layout_battery', 'seed': ctx.seed}); rep = bool(a.get('failed'))
        elif what == 'image': a = nat.ask({'op': 'registry_laws', 'seed': ctx.seed}); rep = any(f.get('law') == 'faithful' for f in a.get('failed', []))
        else: a = nat.ask({'op': 'builder_laws'}); rep = bool(a.get('failed'))
        if not rep and fs not in ('default', 'docs', 'nostd_decode'):
            raise CheckInconclusive('feature-dependent behaviour found symbolically under %s (%s) but the replay binary cannot be built with that feature set to confirm it: %s' % (fs, what, json.dumps(case)[:600]))
        ctx.report_case(case, rep, None)
    if not ctx.violations:
        for feats in (None, 'docs'):
            a = ctx.get_native(feats).ask({'op': 'layout_battery', 'seed': ctx.seed})
            if a.get('failed'): raise CheckInconclusive('native layout battery (features %s) fails: %s' % (feats, json.dumps(a)[:400]))
            ctx.validated += a.get('cases', 0)
        # docs changes documentation strings only: the two native builds must encode the law corpus identically once docs are stripped
        a, b = ctx.get_native().ask({'op': 'corpus_bytes_nodocs'}), ctx.get_native('docs').ask({'op': 'corpus_bytes_nodocs'})
        if a.get('sha') != b.get('sha') or not a.get('sha'): raise CheckInconclusive('native corpus differs between docs on/off beyond documentation strings: %s vs %s' % (a, b))
        ctx.validated += 2
        ctx.notes.append('native cross-check: law corpus encoded with docs stripped is byte-identical in the docs-on and docs-off builds (sha %s)' % a.get('sha'))
    ctx.samples.append({'argument': 'forall F: encode_F(v) == ref(v)  =>  encode_F(v) == encode_F\'(v)', 'feature sets': sets})
    return finish(ctx, 'model_checking',
                  'Per feature set, bounded symbolic execution of the MIR dumped with that feature set against configuration-independent specifications (reference encoder, structural image, builder specification with docs gating); '
                  'agreement across configurations follows by transitivity. Partial: see outside_the_claim.')


def replay(ctx, path):
    case = json.load(open(path)); print('NOT-REPRODUCED (re-run ./check C15; feature-set cases are confirmed during the run)', json.dumps(case)[:200]); return 0
