"""C07 - SCALE round trip of a registry is lossless, exact and injective (composition decided in engine M; scalar leaves on the real codec by Kani).

The derived Encode MIR of a symbolic PortableRegistry is executed into a byte sequence, then the derived Decode MIR is executed on
those bytes (codec primitives from the model table): the result must be Ok, equal to the original field by field, consuming exactly
the encoded bytes.  Injectivity is a corollary (decode is a function), determinism is functional purity of the interpreted encode.
Shared with C06: the same run compares the library's bytes with an independent reference encoder and decodes them with an independent
reference decoder, both written from the layout text.
"""
import z3, json
from lib.common import *
from lib.regmodel import *
from lib import v14ref
from mirsym.engine import *
from mirsym.models import deref, payload, seq_elems, is_variant
from mirsym.codec_models import CODEC_MODELS, CODEC_SUBST, InBuf, OutBuf, utf8_valid, AbsElems, ABS_MODELS, ABS_ELEM_CAP


def string_factory(slen_of):
    def mk(rb, name):
        n = slen_of(rb, name)
        bs = [rb.fresh('s', 8) for _ in range(n)]
        rb.cons.append(utf8_valid(bs))
        return ValSlice(bs, True)
    return mk


def build_registry(n, vec_cap, param_cap, slen, template, idmode, seed=0):
    import random
    rng = random.Random(seed)
    def slen_of(rb, name):
        return slen if isinstance(slen, int) else rng.choice(slen)
    rb = RegBuilder(n, vec_cap=vec_cap, param_cap=param_cap, template=template, strings=string_factory(slen_of), full_ids=True)
    reg = rb.registry(symbolic_ids=True)
    if idmode != 'full':
        # restrict most ids to two size classes (1 byte / 5 bytes) to keep the number of class combinations small; designated ones stay free
        for j, v in enumerate(rb.ids):
            if idmode == 'two-class': rb.cons.append(z3.Or(z3.ULT(v, 64), z3.UGE(v, 1 << 30)))
            elif idmode == 'small': rb.cons.append(z3.ULT(v, 64))
    return rb, reg


def body_codec(n, vec_cap=1, param_cap=1, slen=1, template=None, idmode='full', seed=0, do=('ref_encode', 'roundtrip', 'ref_decode'), wrong=None):
    def body(M):
        check_decls(M.decls, M)
        rb, reg = build_registry(n, vec_cap, param_cap, slen, template, idmode, seed)
        for c in rb.cons: M.add(c)
        orig = snapshot(reg)
        out = OutBuf()
        M.run_fn(M.resolve('<PortableRegistry as Encode>::encode_to'), [Ref(Cell(reg)), Ref(Cell(out))])
        lib_bytes = [z3.simplify(b) for b in out.bytes]
        viol = []
        if 'ref_encode' in do:
            ref = v14ref.ref_registry(M, orig)
            if len(ref) != len(lib_bytes): viol.append(('C06 encoder: length %d vs reference %d' % (len(lib_bytes), len(ref)), z3.BoolVal(True)))
            else: viol.append(('C06 encoder: bytes differ from the reference encoder', z3.Or([a != b for a, b in zip(lib_bytes, ref)]) if ref else z3.BoolVal(False)))
        if 'roundtrip' in do:
            inp = InBuf(lib_bytes)
            r = M.run_fn(M.resolve('<PortableRegistry as Decode>::decode'), [Ref(Cell(inp))])
            if is_variant(M, r, 1, 'decode.result'): viol.append(('C07 decode of own encoding is Err', z3.BoolVal(True)))
            else:
                d = []; v14ref.struct_diff(orig, payload(r, 0)[0], z3.BoolVal(True), d)
                viol += [('C07 decoded value differs at ' + w, c) for w, c in d]
                viol.append(('C07 bytes consumed %d of %d' % (inp.pos, len(lib_bytes)), z3.BoolVal(inp.pos != len(lib_bytes))))
        if 'ref_decode' in do:
            rr = v14ref.ref_decode_registry(M, lib_bytes)
            if rr is None: viol.append(('C06 reference decoder rejects the library encoding', z3.BoolVal(True)))
            else:
                d = []; v14ref.struct_diff(orig, rr[0], z3.BoolVal(True), d)
                viol += [('C06 reference decoder reads a different value at ' + w, c) for w, c in d]
                viol.append(('C06 reference decoder consumed %d of %d' % (rr[1], len(lib_bytes)), z3.BoolVal(rr[1] != len(lib_bytes))))
        if wrong == 'len': viol = [('WRONG: encoding never longer than 3 bytes', z3.BoolVal(len(lib_bytes) > 3))]
        m = M.model(z3.Or([c for _, c in viol]))
        if m is None:
            M.emit('ok', nbytes=len(lib_bytes)); return
        which = sorted({w for w, c in viol if z3.is_true(m.eval(c, model_completion=True))})
        M.emit('cex', what='codec', failed=which[:5], types=reg_to_case(m, orig), bytes=[m.eval(b, model_completion=True).as_long() for b in lib_bytes])
    return body


# ----------------------------------------------------------------------------- length abstraction: vectors of ANY length (below 2^32)
ELEM = z3.DeclareSort('Elem')
ABS_ENTRIES = {'Type': 'ty::Type<PortableForm>', 'Variant': 'variant::Variant<PortableForm>', 'Field': 'fields::Field<PortableForm>', 'PortableRegistry': 'PortableRegistry'}


def abs_value(M, entry):
    """a value of the entry type whose vectors all have a symbolic length N < 2^32 and opaque elements; scalars, options, strings symbolic"""
    cnt = [0]; vecs = []; ids = []
    def fresh(nm, w):
        cnt[0] += 1; v = z3.BitVec('%s%d' % (nm, cnt[0]), w)
        if nm == 'id': ids.append(v)
        return v
    def vec(tag):
        cnt[0] += 1; n = z3.BitVec('N_%s%d' % (tag, cnt[0]), 64); M.add(z3.ULT(n, bv(1 << 32, 64)))
        v = ArrVec(n, z3.Array('E_%s%d' % (tag, cnt[0]), z3.BitVecSort(64), ELEM)); vecs.append((tag, v)); return v
    def string():
        b = fresh('s', 8); M.add(utf8_valid([b])); return ValSlice([b], True)
    def opt(mk):
        d = fresh('opt', 64); M.add(z3.ULT(d, 2)); return EnumV('Option', d, {0: [], 1: [mk()]})
    def sym(): return [fresh('id', 32), None]
    def field(): return [opt(string), sym(), opt(string), vec('field.docs')]
    def variant(): return [string(), vec('variant.fields'), fresh('vidx', 8), vec('variant.docs')]
    def typedef():
        d = fresh('kind', 64); M.add(z3.ULT(d, 8)); p = fresh('prim', 64); M.add(z3.ULT(p, 15))
        return EnumV('TypeDef', d, {0: [[vec('composite.fields')]], 1: [[vec('variant.variants')]], 2: [[sym()]], 3: [[fresh('alen', 32), sym()]], 4: [[vec('tuple.fields')]],
                                    5: [EnumV('TypeDefPrimitive', p, {k: [] for k in range(15)})], 6: [[sym()]], 7: [[sym(), sym()]]})
    def ty(): return [[vec('path.segments')], vec('type.type_params'), typedef(), vec('type.docs')]
    v = {'Type': ty, 'Variant': variant, 'Field': field, 'PortableRegistry': lambda: [vec('registry.types')]}[entry]()
    return v, vecs, ids


def abs_ref(M, entry, v):
    out = []
    if entry == 'Type': v14ref.ref_type(M, out, v)
    elif entry == 'Field': v14ref.ref_field(M, out, v)
    elif entry == 'Variant':
        v14ref.ref_string(M, out, v[0]); v14ref.ref_fields(M, out, v[1]); out.append(v[2]); v14ref.ref_strings(M, out, v[3])
    else: return v14ref.ref_registry(M, v)
    return out


def body_lengths(entry, wrong=False):
    """encode then decode a value whose vectors have an arbitrary length: the length prefix is exact for every N, nothing depends on N besides the
    prefix, the decoder accepts every N and restores it.  Elements are opaque (their own codec is the subject of the bounded harnesses)."""
    def body(M):
        check_decls(M.decls, M)
        v, vecs, ids = abs_value(M, entry)
        orig = snapshot_abs(v)
        out = OutBuf()
        M.run_fn(M.resolve('<%s as Encode>::encode_to' % ABS_ENTRIES[entry]), [Ref(Cell(v)), Ref(Cell(out))])
        lib = [b if isinstance(b, AbsElems) else z3.simplify(b) for b in out.bytes]
        viol = []
        ref = abs_ref(M, entry, orig)
        if len(ref) != len(lib) or any(isinstance(a, AbsElems) != isinstance(b, AbsElems) for a, b in zip(lib, ref)): viol.append(('C06 encoder: stream shape differs from the reference for some vector length', z3.BoolVal(True)))
        else:
            for a, b in zip(lib, ref):
                if isinstance(a, AbsElems): viol.append(('C06 encoder: element block differs from the reference', z3.BoolVal(not a.same(b))))
                else: viol.append(('C06 encoder: bytes differ from the reference for some vector length', a != z3.simplify(b)))
        inp = InBuf(lib)
        r = M.run_fn(M.resolve('<%s as Decode>::decode' % ABS_ENTRIES[entry]), [Ref(Cell(inp))])
        if is_variant(M, r, 1, 'decode.result'): viol.append(('C07 decode of own encoding is Err for some vector length', z3.BoolVal(True)))
        else:
            d = []; v14ref.struct_diff(orig, payload(r, 0)[0], z3.BoolVal(True), d)
            viol += [('C07 decoded value differs at ' + w, c) for w, c in d]
            rest = inp.bytes[inp.pos:]
            for it in rest:
                if isinstance(it, AbsElems): viol.append(('C07 decoder stopped after %d of the N elements of a vector' % it.used, it.n != bv(it.used, 64)))
                else: viol.append(('C07 bytes left over', z3.BoolVal(True)))
        viol += [('C07 ' + w, c) for w, c in M.aux.get('abs_viol', [])]
        if wrong: viol = [('WRONG: no vector longer than 255', z3.Or([z3.UGT(x.len, 255) for _, x in vecs]))]
        m = M.model(z3.Or([c for _, c in viol]))
        if m is None:
            M.emit('ok', items=len(lib)); return
        # smallest lengths that still fail: the native replay builds vectors of that many elements
        cond = z3.Or([c for _, c in viol])
        M.add(cond)
        lens = {}
        for tag, x in vecs:
            lo = 0; cur = m.eval(x.len, model_completion=True).as_long()
            while lo < cur:     # binary search for the least feasible length of this vector (others free)
                mid = (lo + cur) // 2
                m2 = M.model(z3.ULE(x.len, mid))
                if m2 is None: lo = mid + 1
                else: cur = m2.eval(x.len, model_completion=True).as_long()
            M.add(x.len == cur); lens[tag] = cur
        m = M.model()
        which = sorted({w for w, c in viol if z3.is_true(m.eval(c, model_completion=True))})
        kd = None
        if entry == 'Type': kd = m.eval(orig[2].discr, model_completion=True).as_long()
        M.emit('cex', what='lengths', entry=entry, failed=which[:5], lens=lens, defkind=kd, id=max([m.eval(x, model_completion=True).as_long() for x in ids] + [0]))
    return body


def snapshot_abs(v):
    if isinstance(v, ArrVec): return ArrVec(v.len, v.data)
    if isinstance(v, list): return [snapshot_abs(x) for x in v]
    if isinstance(v, EnumV): return EnumV(v.enum, v.discr, {k: snapshot_abs(p) for k, p in v.payloads.items()})
    if isinstance(v, ValSlice): return ValSlice(list(v.elems), getattr(v, 'is_str', False))
    return v


def run_lengths(ctx, props):
    cexs = []
    ctx.deferred = getattr(ctx, 'deferred', [])
    for entry in ABS_ENTRIES:
        try:
            h = run_harness(ctx, 'lengths-' + entry, body_lengths(entry), models=CODEC_MODELS + ABS_MODELS, subst=CODEC_SUBST)
        except CheckInconclusive as e:
            ctx.deferred.append(str(e)[:400])
            if ctx.harnesses and ctx.harnesses[-1].name == 'lengths-' + entry: ctx.harnesses.pop()
            continue
        c = [r for r in h.results if r['kind'] == 'cex' and any(f.startswith(tuple(props)) for f in r['failed'])]
        cexs += c
        ctx.obligations['%s: %s with vectors of every length < 2^32 (opaque elements; %d paths%s)' % ('/'.join(props), entry, sum(h.kinds.values()), ', %d cut at the element-loop bound' % h.kinds['cut'] if h.kinds.get('cut') else '')] = 'sat' if c else 'unsat'
    try:
        hn = run_harness(ctx, 'negative-control-lengths', body_lengths('Variant', wrong=True), models=CODEC_MODELS + ABS_MODELS, subst=CODEC_SUBST); ctx.harnesses.pop()
        if not any(r['kind'] == 'cex' for r in hn.results): raise CheckInconclusive('negative control (lengths) not refuted')
    except CheckInconclusive as e:
        if 'negative control' in str(e): raise
        ctx.deferred.append(str(e)[:300])
        if ctx.harnesses and ctx.harnesses[-1].name == 'negative-control-lengths': ctx.harnesses.pop()
    return cexs


def replay_case(ctx, case, props):
    if case.get('what') == 'lengths':
        a = ctx.get_native().ask({'op': 'codec_lengths', 'entry': case['entry'], 'lens': case['lens'], 'defkind': case.get('defkind'), 'id': case.get('id', 0)})
        if a.get('panic') or a.get('crashed'): return True, None, a
        bad = []
        if 'C07' in props and not a.get('roundtrip_ok'): bad.append('roundtrip')
        if 'C06' in props and not a.get('ref_encode_ok'): bad.append('layout')
        return bool(bad), None, a
    a = ctx.get_native().ask({'op': 'codec_roundtrip', 'types': case['types']})
    if a.get('panic') or a.get('crashed'): return True, None, a
    bad = []
    if 'C07' in props and not a.get('roundtrip_ok'): bad.append('roundtrip')
    if 'C06' in props and not (a.get('ref_encode_ok') and a.get('ref_decode_ok')): bad.append('layout')
    return bool(bad), None, a


def replay(ctx, path):
    case = json.load(open(path)); rep, _, a = replay_case(ctx, case, ('C07',) if ctx.pid == 'C07' else ('C06',))
    print('REPRODUCED' if rep else 'NOT-REPRODUCED', json.dumps(case)[:300]); return 1 if rep else 0


def plan(T, seed=0):
    """(name, kwargs) list shared by C06 and C07"""
    P = []
    for k in range(8):
        P.append(('n1-kind%s-full-ids' % KINDS[k], dict(n=1, vec_cap=1, param_cap=1, slen=1, template=[{'kind': k}], idmode='full')))
    P.append(('n1-any-kind-strings0', dict(n=1, vec_cap=1, param_cap=1, slen=0, idmode='small')))
    P.append(('n1-any-kind-strings2', dict(n=1, vec_cap=1, param_cap=1, slen=2, idmode='small')))
    P.append(('n0', dict(n=0)))
    for k in ((0, 4) if T else (4,)):
        P.append(('n1-kind%s-vec2' % KINDS[k], dict(n=1, vec_cap=2, param_cap=2, slen=1, template=[{'kind': k}], idmode='small')))
    if T: P.append(('n1-kindVariant-2x1', dict(n=1, vec_cap=2, param_cap=1, slen=1, template=[{'kind': 1, 'lens': [2, 1, 1]}], idmode='small')))
    else: P.append(('n1-kindComposite-2fields', dict(n=1, vec_cap=2, param_cap=0, slen=1, template=[{'kind': 0, 'nparams': 0, 'lens': [2]}], idmode='small')))
    P.append(('n1-kindVariant-1x2', dict(n=1, vec_cap=2, param_cap=1, slen=1, template=[{'kind': 1, 'lens': [1, 2]}], idmode='small')))
    import random
    rng = random.Random(1234 + seed)
    for j in range(6 if T else 2):
        ks = [rng.randrange(8), rng.randrange(8)]
        P.append(('n2-kinds-%s-%s' % (KINDS[ks[0]], KINDS[ks[1]]), dict(n=2, vec_cap=1, param_cap=0, slen=[0, 1], template=[{'kind': ks[0], 'nparams': 0, 'lens': [1, 1, 1]}, {'kind': ks[1], 'nparams': 0, 'lens': [1, 0, 0]}], idmode='two-class')))
    if T:
        P.append(('n1-kindComposite-vec3', dict(n=1, vec_cap=3, param_cap=1, slen=1, template=[{'kind': 0, 'nparams': 1, 'lens': [3]}], idmode='small')))
        # (a 2x2 variant shape with free docs was measured at ~10^6 paths / 1 h: left out; 2x1 and 1x2 are covered above)
        P.append(('n3-seq-prim-tuple', dict(n=3, vec_cap=1, param_cap=0, slen=[0, 1], template=[{'kind': 2, 'nparams': 0}, {'kind': 5, 'nparams': 0}, {'kind': 4, 'nparams': 0, 'lens': [1]}], idmode='small')))
    return P


def run_plan(ctx, props, do):
    T = ctx.thorough()
    cexs = []
    ctx.deferred = getattr(ctx, 'deferred', [])
    for name, kw in plan(T, ctx.seed):
        try:
            h = run_harness(ctx, 'codec-' + name, body_codec(do=do, seed=ctx.seed, **kw), models=CODEC_MODELS, subst=CODEC_SUBST)
        except CheckInconclusive as e:
            # not executable on the current code: deferred - the other harnesses may still find a violation; without one the check ends inconclusive
            ctx.deferred.append(str(e)[:400])
            if ctx.harnesses and ctx.harnesses[-1].name == 'codec-' + name: ctx.harnesses.pop()
            continue
        c = [r for r in h.results if r['kind'] == 'cex' and any(f.startswith(tuple(props)) for f in r['failed'])]
        cexs += c
        ctx.obligations['%s: %s (%d paths, %s bytes)' % ('/'.join(props), name, sum(h.kinds.values()), sorted({r.get('nbytes') for r in h.results if r['kind'] == 'ok'})[-1:] or '?')] = 'sat' if c else 'unsat'
        if len(cexs) > 10: break
    hn = run_harness(ctx, 'negative-control', body_codec(n=1, template=[{'kind': 2}], idmode='small', wrong='len'), models=CODEC_MODELS, subst=CODEC_SUBST); ctx.harnesses.pop()
    if not any(r['kind'] == 'cex' for r in hn.results): raise CheckInconclusive('negative control not refuted')
    return cexs


def finish_cases(ctx, cexs, props):
    seen = set()
    for c in cexs:
        if c.get('what') == 'lengths':
            case = {k: v for k, v in c.items() if k != 'kind'}
            key = json.dumps([case['entry'], case['lens'], case.get('defkind')], sort_keys=True)
            if key in seen: continue
            seen.add(key)
            rep, role, a = replay_case(ctx, case, props)
            case['native'] = a
            if rep: ctx.report_case(case, rep, role)
            else:
                # the abstraction hides the elements: a failure that depends on something else than a length may need the bounded harnesses to be
                # demonstrated; it only counts against the check if nothing reproduces at the end
                ctx.unreproduced = getattr(ctx, 'unreproduced', []) + [case]
            if len(ctx.violations) >= 3: break
            continue
        case = {'what': 'codec', 'types': c['types'], 'failed': c['failed'], 'lib_bytes': c['bytes']}
        key = json.dumps(case['types'], sort_keys=True)
        if key in seen: continue
        seen.add(key)
        rep, role, a = replay_case(ctx, case, props)
        case['native'] = {k: a.get(k) for k in ('roundtrip_ok', 'ref_encode_ok', 'ref_decode_ok', 'panic')}
        ctx.report_case(case, rep, role)
        if len(ctx.violations) >= 3: break


def translator_validation(ctx, count):
    """concrete registries: bytes produced by the MIR of the derived Encode (with the codec-primitive models) vs bytes produced by the real crate"""
    nat = ctx.get_native(); rng = ctx.rng
    dis = []
    for it in range(count):
        n = rng.randint(0, 3)
        tmpl = [{'kind': rng.randrange(8), 'nparams': rng.randint(0, 2), 'lens': [rng.randint(0, 2) for _ in range(3)]} for _ in range(n)]
        seed = rng.randrange(1 << 30)
        def body(M, n=n, tmpl=tmpl, seed=seed):
            import random as _r
            r = _r.Random(seed)
            rb, reg = build_registry(n, 2, 2, [0, 1, 2, 3], tmpl, 'full', seed)
            for c in rb.cons: M.add(c)
            def pin(x):
                if isinstance(x, list):
                    for y in x: pin(y)
                elif isinstance(x, VecV):
                    if not isinstance(x.len, int) and not z3.is_bv_value(x.len): M.add(x.len == r.randint(0, len(x.elems)))
                    for y in x.elems: pin(y)
                elif isinstance(x, ValSlice):
                    for b in x.elems: M.add(b == r.choice([0x41, 0x7a, 0x5f, 0x30, 0x20]))
                elif isinstance(x, EnumV):
                    if not isinstance(x.discr, int): M.add(x.discr == r.randrange(2 if x.enum == 'Option' else 15))
                    for p in x.payloads.values(): pin(p)
                elif z3.is_bv(x) and not z3.is_bv_value(x):
                    if x.size() == 32: M.add(x == r.choice([0, 1, 63, 64, 255, 16383, 16384, (1 << 30) - 1, 1 << 30, (1 << 32) - 1, r.randrange(1 << 32)]))
                    elif x.size() == 8: M.add(x == r.randrange(256))
            pin(reg)
            m0 = M.model(); case = reg_to_case(m0, reg)
            out = OutBuf()
            M.run_fn(M.resolve('<PortableRegistry as Encode>::encode_to'), [Ref(Cell(reg)), Ref(Cell(out))])
            m = M.model()
            bs = [m.eval(b, model_completion=True).as_long() for b in out.bytes]
            inp = InBuf([bv(b, 8) for b in bs])
            rr = M.run_fn(M.resolve('<PortableRegistry as Decode>::decode'), [Ref(Cell(inp))])
            M.emit('value', types=case, bytes=bs, decode_ok=(rr.discr == 0), consumed=inp.pos)
        h = run_harness(ctx, 'tv-codec', body, models=CODEC_MODELS, subst=CODEC_SUBST, jobs=1); ctx.harnesses.pop()
        vals = [r for r in h.results if r['kind'] == 'value']
        if len(vals) != 1: raise CheckInconclusive('translator validation: concrete run produced %d paths' % len(vals))
        v = vals[0]
        a = nat.ask({'op': 'codec_roundtrip', 'types': v['types']})
        if a.get('bytes') != v['bytes']: dis.append(('encode bytes', v, a.get('bytes')))
        elif not v['decode_ok'] or v['consumed'] != len(v['bytes']): dis.append(('decode of own bytes in mirsym', v))
        ctx.validated += 1
    if dis: raise CheckInconclusive('encoding unsound: mirsym (concrete mode) and the real crate disagree on %d of %d registries; first: %s' % (len(dis), count, json.dumps(dis[0])[:1500]))


def run(ctx):
    T = ctx.thorough()
    ctx.bounds = {'registry entries': '1 (every kind, all shapes within the vector bounds); 2 for seeded kind pairs (2 quick / 6 thorough); 3 for one fixed shape (thorough)', 'vectors (params, fields, variants, fields per variant, tuple members, docs, path)': '<= 1; <= 2 (thorough 3) for composite/variant/tuple with small ids',
                  'ids (PortableType.id and every reference)': 'full u32 range - all four compact size classes and their boundaries - for one-entry registries of every kind; < 64 (quick) / two classes (thorough) for multi-entry',
                  'strings': 'every well-formed UTF-8 string of 0, 1 or 2 bytes (uniform per run)', 'array len u32 / variant index u8': 'full range', 'registries': 'ids need not be dense (well-formed or not)'}
    ctx.outside = ['that the real codec\'s Vec/String/Option implementations round-trip (parity-scale-codec\'s own property: modelled; the scalar leaves are checked on the real codec by the Kani harnesses of C06)',
                   'registries with more entries or longer strings than the bounds; element-dependent behaviour in vectors longer than the bounds (only the treatment of the length itself is covered for every length)']
    ctx.assumptions = ['codec primitives as modelled in mirsym/codec_models.py (validated against the real crate on concrete registries every run)', 'strings are well-formed UTF-8 (Rust type invariant of String)']
    ctx.bounds['vector lengths in the length-abstraction harnesses (Type, Variant, Field, PortableRegistry)'] = 'every length < 2^32, elements opaque; a hand-written per-element loop is followed for <= %d iterations' % ABS_ELEM_CAP
    cexs = run_lengths(ctx, ('C07',))
    cexs += run_plan(ctx, ('C07',), ('roundtrip',))
    finish_cases(ctx, cexs, ('C07',))
    if ctx.deferred and not ctx.violations: raise CheckInconclusive('part of the check cannot be executed on the current code and no violation was found by the rest: ' + '; '.join(ctx.deferred)[:1500])
    if getattr(ctx, 'unreproduced', None) and not ctx.violations: raise CheckInconclusive('solver model does not reproduce natively (encoding error?): ' + json.dumps(ctx.unreproduced[0])[:800])
    ctx.samples.append({'obligation': 'per path of encode: decode(bytes) is Ok(v\') and v\' == v fieldwise and consumed == len(bytes)', 'verdict': 'unsat (negated) on all paths'})
    ctx.notes.append('injectivity: corollary of the round trip (decode is a function); determinism: the interpreted encode has no nondeterministic callee')
    if not ctx.violations: translator_validation(ctx, 60 if T else 25)
    return finish(ctx, 'model_checking',
                  'Bounded symbolic execution of the derived Encode and Decode MIR of PortableRegistry and all nested types on symbolic registries (kinds, presence, lengths, ids over the full u32 range, '
                  'string bytes, scalars are z3 variables); per path z3 refutes Err, any field difference and inexact consumption.')
