"""C18 - paths are non-empty sequences of valid Rust identifiers.

(i)   is_rust_identifier(s)  <=>  s in (r#)?[A-Za-z_][A-Za-z0-9_]*      all well-formed (<=2-byte sequences) UTF-8 strings, len <= L
(ii)  Path::from_segments: Ok <=> non-empty and all valid; first offending position; order kept   (<= 4 opaque segments)
(iii) Path::new / new_with_replace on symbolic module path, ident and replacement table (real split, real validity check)
(iv)  ident / namespace / is_empty / Display on paths of <= 4 opaque segments
"""
import z3, json, itertools
from lib.common import *
from mirsym.engine import *
from mirsym.models import opt_none, opt_some, deref, seq_elems, is_variant, payload


# ----------------------------------------------------------------------------- reference predicates (from the property text)
def letter(b): return z3.Or(b == 95, z3.And(z3.UGE(b, 65), z3.ULE(b, 90)), z3.And(z3.UGE(b, 97), z3.ULE(b, 122)))
def tailc(b): return z3.Or(letter(b), z3.And(z3.UGE(b, 48), z3.ULE(b, 57)))
def plain(xs): return z3.And([letter(xs[0])] + [tailc(b) for b in xs[1:]]) if xs else z3.BoolVal(False)


def ident_pred(bs):
    alts = [plain(bs)]
    if len(bs) >= 2: alts.append(z3.And(bs[0] == ord('r'), bs[1] == ord('#'), plain(bs[2:])))
    return z3.Or(alts)


def utf8_ok(bs):
    """well-formed UTF-8 restricted to 1- and 2-byte sequences"""
    cs = []
    n = len(bs)
    for i, b in enumerate(bs):
        lead = z3.And(z3.UGE(b, 0xC2), z3.ULE(b, 0xDF)); cont = z3.And(z3.UGE(b, 0x80), z3.ULE(b, 0xBF))
        nxt_cont = z3.And(z3.UGE(bs[i + 1], 0x80), z3.ULE(bs[i + 1], 0xBF)) if i + 1 < n else z3.BoolVal(False)
        prev_lead = z3.And(z3.UGE(bs[i - 1], 0xC2), z3.ULE(bs[i - 1], 0xDF)) if i > 0 else z3.BoolVal(False)
        cs.append(z3.Or(z3.ULT(b, 0x80), z3.And(lead, nxt_cont), z3.And(cont, prev_lead)))
    return z3.And(cs) if cs else z3.BoolVal(True)


def py_is_ident(b):
    import re as _re
    return _re.fullmatch(rb'(r#)?[A-Za-z_][A-Za-z0-9_]*', b) is not None


def concrete_bytes(m, bs): return [m.eval(b, model_completion=True).as_long() for b in bs]
def cbytes(s): return [bv(x, 8) for x in s]


# ----------------------------------------------------------------------------- (i)
def body_ident(L, concrete=None):
    def body(M):
        bs = cbytes(concrete) if concrete is not None else [z3.BitVec('b%d' % i, 8) for i in range(L)]
        if concrete is None: M.add(utf8_ok(bs))
        r = M.run_fn(M.fns['is_rust_identifier'], [ValSlice(bs, True)])
        if concrete is not None:
            M.emit('value', value=z3.is_true(z3.simplify(r))); return
        m = M.model(r != ident_pred(bs))
        if m is not None:
            M.emit('cex', what='is_rust_identifier', s=concrete_bytes(m, bs), got=z3.is_true(m.eval(r, model_completion=True)))
        else:
            M.emit('ok', accepts=M.check(r), rejects=M.check(z3.Not(r)))
    return body


# ----------------------------------------------------------------------------- (ii)
def body_from_segments(n):
    def body(M):
        toks = [ValSlice([Tok('seg%d' % i)], True) for i in range(n)]
        valid = [z3.Bool('valid%d' % i) for i in range(n)]
        def stub(M, a, c, fr):
            s = deref(M, a[0])
            return valid[int(s.elems[0].name[3:])]
        M.models.insert(0, (re.compile(r'(utils::)?is_rust_identifier'), stub))
        f = M.resolve('ty::path::Path::from_segments')
        r = M.run_fn(f, [list(toks)])
        # expected
        if n == 0: exp = ('err', 'missing')
        else: exp = None
        ok_case = z3.And(valid) if valid else z3.BoolVal(True)
        first_bad = [z3.And([valid[j] for j in range(i)] + [z3.Not(valid[i])]) for i in range(n)]
        viol = []
        if r.discr == 0:       # Ok(Path)
            segs = seq_elems(M, payload(r, 0)[0][0])
            same = len(segs) == n and all(deref(M, s).elems[0] == toks[i].elems[0] for i, s in enumerate(segs))
            viol.append(z3.Not(ok_case) if (same and n > 0) else z3.BoolVal(True))
            got = ['ok', [str(deref(M, s).elems[0]) for s in segs]]
        else:
            e = payload(r, 1)[0]
            if e.discr == 0:
                viol.append(z3.BoolVal(n != 0)); got = ['err', 'missing']
            else:
                k = payload(e, 1)[0]
                viol.append(z3.Not(z3.Or([z3.And(first_bad[i], k == i) for i in range(n)])) if n else z3.BoolVal(True))
                got = ['err', 'invalid']
        m = M.model(z3.Or(viol))
        if m is not None:
            M.emit('cex', what='from_segments', n=n, valid=[z3.is_true(m.eval(v, model_completion=True)) for v in valid], got=got)
        else:
            M.emit('ok', got=got)
    return body


# ----------------------------------------------------------------------------- (iii)
def dfa_module_valid(bs):
    """bs in IDENT(::IDENT)* , IDENT = (r#)?[A-Za-z_][A-Za-z0-9_]*   -- symbolic DFA run (states as z3 Bools)"""
    # states: S start-of-ident, R saw 'r' first (is also TAIL), H saw 'r#' need head, T in tail (accepting), C saw one ':' after an ident, X dead
    S, R, H, T, C = z3.BoolVal(True), z3.BoolVal(False), z3.BoolVal(False), z3.BoolVal(False), z3.BoolVal(False)
    for b in bs:
        isr, hsh, col = b == ord('r'), b == ord('#'), b == ord(':')
        nS = z3.And(C, col)
        nR = z3.And(S, isr)
        nH = z3.And(R, hsh)
        nT = z3.Or(z3.And(S, letter(b), z3.Not(isr)), z3.And(H, letter(b)), z3.And(z3.Or(T, R), tailc(b)))
        nC = z3.And(z3.Or(T, R), col)
        S, R, H, T, C = nS, nR, nH, nT, nC
    return z3.Or(T, R)


def sep_positions(bs):
    """leftmost non-overlapping occurrences of '::' as a recurrence: sep[p] = m(p) & !sep[p-1]"""
    sep = []
    for p in range(len(bs) - 1):
        m = z3.And(bs[p] == ord(':'), bs[p + 1] == ord(':'))
        sep.append(z3.And(m, z3.Not(sep[p - 1])) if p > 0 else m)
    return sep


def seg_bytes(M, s): return list(deref(M, s).elems)


def eq_bytes(a, b):
    if len(a) != len(b): return z3.BoolVal(False)
    return z3.And([x == y for x, y in zip(a, b)]) if a else z3.BoolVal(True)


def body_path_new(Lm, Li, npairs=None, Ls=2, concrete=None):
    """npairs None: Path::new; else Path::new_with_replace with a table of npairs (search, replace) strings of length exactly Ls each"""
    def body(M):
        if concrete is not None:
            mod, idt = cbytes(concrete['module']), cbytes(concrete['ident'])
            table = [(cbytes(a), cbytes(b)) for a, b in concrete.get('replace', [])]
        else:
            mod = [z3.BitVec('m%d' % i, 8) for i in range(Lm)]
            idt = [z3.BitVec('i%d' % i, 8) for i in range(Li)]
            table = []
            for j in range(npairs or 0):
                ls, lr = Ls[j] if isinstance(Ls, list) else (Ls, Ls)
                table.append(([z3.BitVec('s%d_%d' % (j, t), 8) for t in range(ls)], [z3.BitVec('r%d_%d' % (j, t), 8) for t in range(lr)]))
            M.add(utf8_ok(mod)); M.add(utf8_ok(idt))
            for s_, r_ in table: M.add(utf8_ok(s_)); M.add(utf8_ok(r_))
        args = [ValSlice(idt, True), ValSlice(mod, True)]
        if npairs is None and not (concrete and 'replace' in concrete):
            f = M.resolve('ty::path::Path::new')
        else:
            f = M.resolve('ty::path::Path::new_with_replace')
            args.append(Ref(Cell(ValSlice([[ValSlice(s_, True), ValSlice(r_, True)] for s_, r_ in table]))))
        try:
            r = M.run_fn(f, args); panicked = False
        except Panic as e:
            panicked = True; why = str(e)
            if 'expect' not in why: raise Inconclusive('unexpected panic kind: ' + why)
        segs = None if panicked else [seg_bytes(M, s) for s in seq_elems(M, r[0])]
        if concrete is not None:
            M.emit('value', panic=panicked, segs=None if panicked else [[x.as_long() for x in s] for s in segs]); return
        # ---- independent oracle
        viol = []
        sep = sep_positions(mod)
        if not table:
            valid = z3.And(dfa_module_valid(mod), ident_pred(idt))
            if panicked: viol.append(valid)
            else:
                viol.append(z3.Not(valid))
                joined = []
                for i, s in enumerate(segs[:-1]):
                    if i: joined += [bv(58, 8), bv(58, 8)]
                    joined += s
                viol.append(z3.Not(eq_bytes(joined, mod)))
                viol.append(z3.Not(eq_bytes(segs[-1], idt)))
                for s in segs[:-1]: viol.append(z3.Or([b == 58 for b in s]) if s else z3.BoolVal(False))
        else:
            # pieces are read off the separator recurrence: enumerate boundary sets consistent with the path condition
            bvals = [M.concrete_bool(sp, 'oracle.sep') for sp in sep]      # forks; each sub-path has a concrete separator set
            pieces, cur, p = [], 0, 0
            while p < len(bvals):
                if bvals[p]: pieces.append(mod[cur:p]); cur = p + 2; p += 2
                else: p += 1
            pieces.append(mod[cur:]); pieces.append(idt)
            def expected_ok(piece):
                # validity after replacement by the first matching pair
                out, nomatch = [], []
                for s_, r_ in table:
                    hit = z3.And(nomatch + [eq_bytes(piece, s_)]); out.append(z3.And(hit, ident_pred(r_))); nomatch.append(z3.Not(eq_bytes(piece, s_)))
                out.append(z3.And(nomatch + [ident_pred(piece)]))
                return z3.Or(out)
            def expected_is(piece, seg):
                out, nomatch = [], []
                for s_, r_ in table:
                    out.append(z3.And(nomatch + [eq_bytes(piece, s_), eq_bytes(seg, r_)])); nomatch.append(z3.Not(eq_bytes(piece, s_)))
                out.append(z3.And(nomatch + [eq_bytes(seg, piece)]))
                return z3.Or(out)
            allok = z3.And([expected_ok(p_) for p_ in pieces])
            if panicked: viol.append(allok)
            else:
                viol.append(z3.Not(allok))
                if len(segs) != len(pieces): viol.append(z3.BoolVal(True))
                else:
                    for p_, s in zip(pieces, segs): viol.append(z3.Not(expected_is(p_, s)))
        m = M.model(z3.Or(viol))
        if m is not None:
            M.emit('cex', what='path_new' if not table else 'path_new_with_replace', module=concrete_bytes(m, mod), ident=concrete_bytes(m, idt),
                   replace=[[concrete_bytes(m, s_), concrete_bytes(m, r_)] for s_, r_ in table], panicked=panicked)
        else:
            M.emit('ok', panicked=panicked, nsegs=None if panicked else len(segs))
    return body


# ----------------------------------------------------------------------------- (iv)
def body_accessors(n):
    def body(M):
        toks = [ValSlice([Tok('seg%d' % i)], True) for i in range(n)]
        pcell = Cell([VecV(bv(n, 64), list(toks))])
        bad = []
        e = M.run_fn(M.resolve('ty::path::Path::<T>::is_empty'), [Ref(pcell)])
        if not z3.eq(z3.simplify(e), z3.BoolVal(n == 0)): bad.append('is_empty')
        r = M.run_fn(M.resolve('ty::path::Path::<T>::ident'), [Ref(pcell)])
        if n == 0:
            if r.discr != 0: bad.append('ident of empty path')
        elif r.discr != 1 or deref(M, payload(r, 1)[0]).elems[0] != toks[-1].elems[0]: bad.append('ident')
        ns = seq_elems(M, deref(M, M.run_fn(M.resolve('ty::path::Path::<T>::namespace'), [Ref(pcell)])))
        if [deref(M, x).elems[0] for x in ns] != [t.elems[0] for t in toks[:-1]]: bad.append('namespace')
        # Display: written text = segments joined by "::"
        M.aux['fmt_log'] = []
        M.run_fn(M.resolve('<ty::path::Path<PortableForm> as Display>::fmt'), [Ref(pcell), Ref(Cell(Tok('formatter')))])
        log = M.aux['fmt_log']
        okd = False
        if len(log) == 1 and log[0][0] == 'fmt-args':
            tmpl, fargs = log[0][1], log[0][2]
            tb = [x.as_long() for x in tmpl.elems] if isinstance(tmpl, ValSlice) else None
            if tb != [0xC0, 0x00]: raise Inconclusive('format template not understood: %r' % (tb,))
            if len(fargs) == 1 and fargs[0][0] == 'fmt-arg':
                v = fargs[0][1]
                exp = []
                for i, t in enumerate(toks):
                    if i: exp += [58, 58]
                    exp.append(t.elems[0])
                got = [x.as_long() if z3.is_bv_value(x) else x for x in v.elems] if isinstance(v, ValSlice) else None
                okd = got == exp
        if not okd: bad.append('display')
        if bad: M.emit('cex', what='accessors', n=n, failed=bad)
        else: M.emit('ok', n=n)
    return body


# ----------------------------------------------------------------------------- native replay of counterexamples
def native_path_answer(ans):
    if ans.get('panic'): return ('panic', None)
    if 'ok' in ans: return ('ok', ans['ok'])
    if 'err' in ans: return ('err', ans.get('segment', 'missing'))
    return ('other', ans)


def ref_outcome_from_segments(segs):
    if not segs: return ('err', 'missing')
    for i, s in enumerate(segs):
        if not py_is_ident(bytes(s)): return ('err', i)
    return ('ok', [list(s) for s in segs])


def ref_path_new(ident, module, replace=()):
    pieces = bytes(module).split(b'::') + [bytes(ident)]
    out = []
    for p in pieces:
        for s_, r_ in replace:
            if p == bytes(s_): p = bytes(r_); break
        out.append(p)
    r = ref_outcome_from_segments(out)
    return ('panic', None) if r[0] == 'err' else r


def replay_case(ctx, case):
    """returns (reproduced, role)"""
    nat = ctx.get_native()
    w = case['what']
    if w == 'is_rust_identifier':
        s = case['s']
        a = native_path_answer(nat.ask({'op': 'from_segments', 'segs': [s]}))
        exp = ref_outcome_from_segments([s])
        role = 'segment with two or more leading "r#" accepted' if bytes(s).startswith(b'r#r#') and a[0] == 'ok' else None
        return a != exp, role
    if w == 'path_new':
        a = native_path_answer(nat.ask({'op': 'path_new', 'ident': case['ident'], 'module': case['module']}))
        return a != ref_path_new(case['ident'], case['module']), None
    if w == 'path_new_with_replace':
        a = native_path_answer(nat.ask({'op': 'path_new_with_replace', 'ident': case['ident'], 'module': case['module'], 'replace': case['replace']}))
        return a != ref_path_new(case['ident'], case['module'], case['replace']), None
    if w == 'from_segments':
        # realise the validity vector with concrete segments
        segs = [list(b'ok%d' % i) if v else list(b'1bad') for i, v in enumerate(case['valid'])]
        a = native_path_answer(nat.ask({'op': 'from_segments', 'segs': segs}))
        return a != ref_outcome_from_segments(segs), None
    if w == 'accessors':
        a = nat.ask({'op': 'path_accessors', 'n': case['n']})
        return not a.get('all_ok', False), None
    return False, None


def replay(ctx, path):
    case = json.load(open(path))
    rep, role = replay_case(ctx, case)
    print('REPRODUCED' if rep else 'NOT-REPRODUCED', json.dumps(case)[:300])
    return 1 if rep else 0


# ----------------------------------------------------------------------------- translator validation
TEST_LITERALS = [b'hello', b'Hello', b'World', b'no_std', b'Planet', b'r#mod', b'r#Name', b'r#enum', b'r#struct', b'', b'r#', b'Hello, World!',
                 b'1abc', b'_', b'_1', b'r#1', b'r#_', b'a b', b'a:b', b'caf\xc3\xa9', b'\xc3\xa9', b'r#r#a', b'rr#a', b'#r', b'r', b'r#r', b'Z9_z']
MODULE_LITERALS = [(b'Planet', b'hello::world'), (b'Planet', b''), (b'Option', b'core::option'), (b'Name', b'r#mod::r#Name'), (b'Planet', b'Hello, World!'),
                   (b'Planet', b'hello::'), (b'Planet', b'::hello'), (b'Planet', b'a:::b'), (b'Planet', b'a::::b'), (b'P', b':'), (b'P', b'a:b'), (b'1', b'a'),
                   (b'r#r#Z', b'a'), (b'Z', b'r#r#a::b')]


def translator_validation(ctx):
    nat = ctx.get_native()
    rng = ctx.rng
    alpha = [b'a', b'Z', b'_', b'1', b'r', b'#', b':', b' ', b'\xc3\xa9']
    def rnd(maxlen): return b''.join(rng.choice(alpha) for _ in range(rng.randint(0, maxlen)))
    # is_rust_identifier through from_segments([s])
    vecs = list(TEST_LITERALS) + [rnd(8) for _ in range(120)]
    dis = []
    for s in vecs:
        h = run_harness(ctx, 'tv-ident', body_ident(len(s), concrete=list(s)), jobs=1)
        ctx.harnesses.pop()
        sym = h.results[0]['value']
        nat_ans = native_path_answer(nat.ask({'op': 'from_segments', 'segs': [list(s)]}))
        if sym != (nat_ans[0] == 'ok'): dis.append(('is_rust_identifier', s, sym, nat_ans))
        ctx.validated += 1
    pairs = list(MODULE_LITERALS) + [(rnd(3), rnd(9)) for _ in range(80)]
    for idt, mod in pairs:
        table = [] if rng.random() < 0.5 else [(rnd(2), rnd(2)) for _ in range(rng.randint(1, 2))]
        if table and rng.random() < 0.6 and b'::' in mod: table[0] = (mod.split(b'::')[0], table[0][1])
        conc = {'module': list(mod), 'ident': list(idt)}
        if table: conc['replace'] = [[list(a), list(b)] for a, b in table]
        h = run_harness(ctx, 'tv-path', body_path_new(0, 0, concrete=conc), jobs=1)
        ctx.harnesses.pop()
        v = h.results[0]
        sym = ('panic', None) if v['panic'] else ('ok', v['segs'])
        if table: a = native_path_answer(nat.ask({'op': 'path_new_with_replace', 'ident': list(idt), 'module': list(mod), 'replace': conc['replace']}))
        else: a = native_path_answer(nat.ask({'op': 'path_new', 'ident': list(idt), 'module': list(mod)}))
        if a != sym: dis.append(('path_new', idt, mod, table, sym, a))
        ctx.validated += 1
    if dis:
        raise CheckInconclusive('encoding unsound: mirsym (concrete mode) and the native build disagree on %d vectors; first: %r' % (len(dis), dis[0]))


# ----------------------------------------------------------------------------- driver
def run(ctx):
    T = ctx.thorough()
    L = 12 if T else 8
    ctx.bounds = {'is_rust_identifier: string length (bytes), all byte values, well-formed UTF-8 with 1-2 byte sequences': L,
                  'from_segments: segments (opaque, validity symbolic)': 5 if T else 4,
                  'Path::new: module path bytes / ident bytes': [9, 3] if T else [7, 2],
                  'Path::new_with_replace: module bytes / ident bytes / pairs / string length of each search and replace': [6, 2, 2, '1-2'] if T else [5, 1, 2, '1-2 (second pair 1)'],
                  'accessors: segments': 4}
    ctx.outside = ['strings longer than the bounds', 'UTF-8 sequences of 3 and 4 bytes (the code only asks is_ascii)', 'replacement tables with more than 2 pairs']
    ctx.assumptions = ['&str arguments are well-formed UTF-8 (Rust type invariant)', 'std models listed under std_models_used']
    translator_validation(ctx)
    cexs = []
    for l in range(L + 1):
        h = run_harness(ctx, 'ident-len%d' % l, body_ident(l))
        cexs += [r for r in h.results if r['kind'] == 'cex']
        acc = any(r.get('accepts') for r in h.results if r['kind'] == 'ok'); rej = any(r.get('rejects') for r in h.results if r['kind'] == 'ok')
        ctx.obligations['is_rust_identifier == regex, len %d (%d paths)' % (l, sum(h.kinds.values()))] = 'unsat' if not h.kinds.get('cex') else 'sat'
        if l >= 1 and not (acc and rej) and not h.kinds.get('cex'): raise CheckInconclusive('vacuity: len %d has no accepting or no rejecting path' % l)
    ctx.samples.append({'harness': 'ident-len%d' % L, 'obligation': 'forall bytes b0..b%d (utf8_ok): is_rust_identifier(b) == regex(b)' % (L - 1), 'verdict': 'unsat on every path'})
    for n in range((5 if T else 4) + 1):
        h = run_harness(ctx, 'from_segments-%d' % n, body_from_segments(n))
        cexs += [r for r in h.results if r['kind'] == 'cex']
        ctx.obligations['from_segments outcome, %d segments (%d paths)' % (n, sum(h.kinds.values()))] = 'unsat' if not h.kinds.get('cex') else 'sat'
        if n == 2: ctx.samples.append({'harness': h.name, 'path_ends': [r.get('got') for r in h.results if r['kind'] == 'ok']})
    Lm, Li = (9, 3) if T else (7, 2)
    for lm in range(Lm + 1):
        for li in range(Li + 1):
            h = run_harness(ctx, 'path_new-m%d-i%d' % (lm, li), body_path_new(lm, li))
            cexs += [r for r in h.results if r['kind'] == 'cex']
            ctx.obligations['Path::new returns iff module in IDENT(::IDENT)* and ident valid; segments rejoin; module %d ident %d' % (lm, li)] = 'unsat' if not h.kinds.get('cex') else 'sat'
    ok_paths = sum(1 for h in ctx.harnesses if h.name.startswith('path_new-') for r in h.results if r['kind'] == 'ok' and not r['panicked'])
    if ok_paths == 0: raise CheckInconclusive('vacuity: Path::new never returned')
    Lm2, Li2 = (6, 2) if T else (5, 1)
    shapes = [[(1, 1)], [(2, 2)], [(1, 2)], [(2, 1)], [(1, 1), (1, 1)], [(2, 1), (1, 1)]] + ([[(2, 2), (2, 1)], [(1, 2), (2, 2)]] if T else [])
    for lm in range(Lm2 + 1):
        for li in range(1, Li2 + 1):
            for sh_ in shapes:
                h = run_harness(ctx, 'path_new_with_replace-m%d-i%d-%s' % (lm, li, sh_), body_path_new(lm, li, npairs=len(sh_), Ls=sh_))
                cexs += [r for r in h.results if r['kind'] == 'cex']
                ctx.obligations['new_with_replace: first matching pair replaces, validity after replacement; module %d ident %d table %s' % (lm, li, sh_)] = 'unsat' if not h.kinds.get('cex') else 'sat'
    for n in range(5):
        h = run_harness(ctx, 'accessors-%d' % n, body_accessors(n))
        cexs += [r for r in h.results if r['kind'] == 'cex']
        ctx.obligations['ident/namespace/is_empty/Display, %d segments' % n] = 'unsat' if not h.kinds.get('cex') else 'sat'
    # negative control: a deliberately wrong specification must be refuted
    hneg = run_harness(ctx, 'negative-control', body_ident_wrong(3)); ctx.harnesses.pop()
    if not any(r['kind'] == 'cex' for r in hneg.results): raise CheckInconclusive('negative control not refuted: engine or oracle is vacuous')
    ctx.notes.append('negative control (digits allowed as first character in the reference) refuted as required')
    seen = set()
    for c in cexs:
        case = {k: v for k, v in c.items() if k not in ('kind',)}
        key = json.dumps(case, sort_keys=True)
        if key in seen: continue
        seen.add(key)
        rep, role = replay_case(ctx, case)
        ctx.report_case(case, rep, role)
        if len(ctx.violations) >= 5: break
    return finish(ctx, 'model_checking',
                  'Bounded symbolic execution of the MIR of is_rust_identifier, Path::from_segments, Path::new, Path::new_with_replace and the Path accessors; '
                  'every byte of every string within the stated lengths is a z3 bit-vector; at each path end z3 decides path-condition AND NOT oracle (unsat on all paths).')


def body_ident_wrong(L):
    def body(M):
        bs = [z3.BitVec('b%d' % i, 8) for i in range(L)]
        M.add(utf8_ok(bs))
        r = M.run_fn(M.fns['is_rust_identifier'], [ValSlice(bs, True)])
        wrong = z3.And([tailc(b) for b in bs])
        m = M.model(r != wrong)
        M.emit('cex' if m is not None else 'ok')
    return body
