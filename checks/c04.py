"""C04 - built-in TypeInfo impls describe the real SCALE encoding of std types (engine K, same two-stage machinery as C03).

Corpus: type expressions over the built-in constructors (every integer width, bool, arrays, tuples up to arity 18, Vec/VecDeque/String,
Option, Result, Box/Rc/Arc/Cow, BTreeMap/BTreeSet/BinaryHeap, Compact, Range(Inclusive), NonZero*, Duration, PhantomData, unit, nested).
Types without a codec encoding or unsized (char, 19/20-tuples, str, [T], BitVec) are compared with their documented shape statically.
"""
from lib.common import *
from checks import c03


def run(ctx):
    T = ctx.thorough()
    ctx.bounds = {'type expressions': '66 fixed (quick; 68 thorough) + 40 seeded nestings of depth <= 3 (thorough)', 'values': 'every value (kani::any); collections <= 2 elements (BTreeMap/BTreeSet/BinaryHeap <= 1), strings "", "a", "Zq"; BTree keys concrete',
                  'encoded size': '<= 96 bytes', 'shape only': 'char, 19- and 20-tuples, str, [T], &[T], BitVec<u8,Lsb0>, BitVec<u16,Msb0>'}
    ctx.outside = ['BTreeMap / BTreeSet value level: B-tree iteration is out of CBMC\'s reach (timeout with a single element) - native sampling through the generated decoder and static shape only, NOT solver-decided', 'BitVec value level (bitvec under CBMC not attempted; the BitSequence shape is checked statically)', 'collections with more elements, nesting deeper than 3', 'Compact<u128> (reader handles 64-bit compacts)']
    ctx.assumptions = ['Kani: unwinding assertions on, default checks on, no stubs']
    res = c03.run_generated(ctx, 'c04', 'C04', ctx.seed, 1000 if T else 0, 900 if T else 400)
    ctx.samples.append({'harness': 'c04_r*', 'claim': 'forall v: T. the decoder generated from T\'s registry consumes encode(v) exactly and yields the leaves of v in order'})
    ks = getattr(ctx, 'kani', [])
    return finish(ctx, 'model_checking',
                  'Kani/CBMC harnesses over the compiled crate for built-in type expressions: registry computed natively by the real impls, decoder generated from it, solver ranges over every value.',
                  extra_cov={'kani': [{k: r.get(k) for k in ('harness', 'verdict', 'wall_s', 'solver_s', 'covers', 'checks')} for r in ks], 'kani_solver_s': round(sum((r.get('solver_s') or 0) for r in ks), 1),
                             'states': max(len(ks), 1), 'transitions': max(sum((r.get('checks') or 1) for r in ks), 1)})


replay = c03.replay
