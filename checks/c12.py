"""C12 - PortableRegistryBuilder and Interner behave as an append-only duplicate-free table.

Inductive step per operation from the MIR: the pre-state is an arbitrary interner (z3 arrays: map present/val, vec len/data)
constrained only by the representation invariant (map and vec mutually inverse on [0,len), len < 2^32); one operation with
symbolic arguments is executed; the duplicate-free-list specification and the invariant are asserted afterwards.
"""
import z3, json
from lib.common import *
from mirsym.engine import *
from mirsym.models import deref, payload, seq_elems

T = z3.DeclareSort('T')
U64 = z3.BitVecSort(64)
kq, iq = z3.Const('kq', T), z3.BitVec('iq', 64)


def state(tag):
    return dict(mp=z3.Array('mp_' + tag, T, z3.BoolSort()), mv=z3.Array('mv_' + tag, T, U64), n=z3.BitVec('n_' + tag, 64), data=z3.Array('data_' + tag, U64, T))


def INV(s, with_bound=True):
    cs = [z3.ForAll([kq], z3.Implies(z3.Select(s['mp'], kq), z3.And(z3.ULT(z3.Select(s['mv'], kq), s['n']), z3.Select(s['data'], z3.Select(s['mv'], kq)) == kq))),
          z3.ForAll([iq], z3.Implies(z3.ULT(iq, s['n']), z3.And(z3.Select(s['mp'], z3.Select(s['data'], iq)), z3.Select(s['mv'], z3.Select(s['data'], iq)) == iq)))]
    if with_bound: cs.append(z3.ULT(s['n'], bv(2 ** 32, 64)))
    return z3.And(cs)


def to_heap(s): return [MapV(s['mp'], s['mv']), ArrVec(s['n'], s['data'])]
def from_heap(v): return dict(mp=v[0].present, mv=v[0].val, n=v[1].len, data=v[1].data)
def same_state(a, b):
    return z3.And(a['n'] == b['n'], z3.ForAll([kq], z3.And(z3.Select(a['mp'], kq) == z3.Select(b['mp'], kq), z3.Select(a['mv'], kq) == z3.Select(b['mv'], kq))),
                  z3.ForAll([iq], z3.Select(a['data'], iq) == z3.Select(b['data'], iq)))
def prefix_kept(a, b): return z3.ForAll([iq], z3.Implies(z3.ULT(iq, a['n']), z3.Select(b['data'], iq) == z3.Select(a['data'], iq)))


def new_map_hook(M, c):
    if 'usize' in c: return MapV(z3.K(T, z3.BoolVal(False)), z3.K(T, bv(0, 64)))
    return None


SUBST = [(r'Type<PortableForm>', 'T'), (r'ty::T\b', 'T')]
WRONG = {'on': False}


def inv_instances(s, keys, idxs, rounds=2):
    """ground instances of INV(s) at the given key / index terms, closed under mv[.] and data[.] for a few rounds"""
    K, I = list(keys), list(idxs)
    for _ in range(rounds):
        I2 = [z3.Select(s['mv'], k) for k in K]; K2 = [z3.Select(s['data'], i) for i in I]
        for t in I2:
            if not any(z3.eq(t, u) for u in I): I.append(t)
        for t in K2:
            if not any(z3.eq(t, u) for u in K): K.append(t)
    out = [z3.ULT(s['n'], bv(2 ** 32, 64))]
    for k in K: out.append(z3.Implies(z3.Select(s['mp'], k), z3.And(z3.ULT(z3.Select(s['mv'], k), s['n']), z3.Select(s['data'], z3.Select(s['mv'], k)) == k)))
    for i in I: out.append(z3.Implies(z3.ULT(i, s['n']), z3.And(z3.Select(s['mp'], z3.Select(s['data'], i)), z3.Select(s['mv'], z3.Select(s['data'], i)) == i)))
    return out


def inv_conjuncts(s):
    """INV(s) as skolemisable conjuncts: (name, sort-kind, fn(skolem) -> formula)"""
    return [('inv.map->vec', 'key', lambda k: z3.Implies(z3.Select(s['mp'], k), z3.And(z3.ULT(z3.Select(s['mv'], k), s['n']), z3.Select(s['data'], z3.Select(s['mv'], k)) == k))),
            ('inv.vec->map', 'idx', lambda i: z3.Implies(z3.ULT(i, s['n']), z3.And(z3.Select(s['mp'], z3.Select(s['data'], i)), z3.Select(s['mv'], z3.Select(s['data'], i)) == i)))]


def unchanged(s0, s1):
    return [('map.present unchanged', None, lambda: s1['mp'] == s0['mp']), ('map.val unchanged', None, lambda: s1['mv'] == s0['mv']),
            ('vec.len unchanged', None, lambda: s1['n'] == s0['n']), ('vec.data unchanged', None, lambda: s1['data'] == s0['data'])]


_sk = [0]


def decide(M, s0, conjuncts, terms_k, terms_i, extra_hyp=()):
    """each conjunct is refuted separately: path condition AND ground instances of INV(s0) AND NOT conjunct(skolem) must be unsat.
    returns list of (name, model or None)"""
    out = []
    for name, kind, fn in conjuncts:
        _sk[0] += 1
        if kind == 'key': sk = z3.Const('sk_k%d' % _sk[0], T); f = fn(sk); K, I = terms_k + [sk], terms_i
        elif kind == 'idx': sk = z3.BitVec('sk_i%d' % _sk[0], 64); f = fn(sk); K, I = terms_k, terms_i + [sk]
        else: f = fn(); K, I = terms_k, terms_i
        hyp = inv_instances(s0, K, I) + list(extra_hyp)
        m = M.model(z3.And(hyp + [z3.Not(f)]))
        out.append((name, m, hyp, f))
    return out


def body_step(op, builder=False, pre=None, wrong=False):
    """pre: None = arbitrary state under INV; else a concrete witness state (number of elements, index of the argument or None)"""
    def body(M):
        try:
            inner(M)
        except Panic as e:
            if pre is not None:
                M.emit('witness', cls='panic', holds=False, obs={'panic': str(e)[:200], 'n_after': -1}); return
            s0, x, sym, sym64 = M.aux['c12_state']
            case = {'what': ('builder.' if builder else 'interner.') + op, 'cls': 'panic', 'conjunct': 'no panic: ' + str(e)[:160]}
            full = inv_instances(s0, [x] + [z3.Select(s0['data'], bv(i, 64)) for i in range(5)], [bv(i, 64) for i in range(5)] + [sym64], rounds=1)
            small = M.model(z3.And(full + [z3.ULE(s0['n'], 4), z3.ULE(sym64, 8)]))
            if small is not None: case.update(small_case(small, s0, x, sym))
            M.emit('cex', **case)

    def inner(M):
        M.aux['new_map'] = new_map_hook
        s0 = state('0')
        x = z3.Const('x', T)
        sym = z3.BitVec('sym', 32)
        extra = []
        if pre is not None:
            elems, argi = pre
            cs = [z3.Const('t%d' % i, T) for i in range(max(elems, 1) + 1)]
            if len(cs) > 1: M.add(z3.Distinct(cs))
            mp, mv, data = z3.K(T, z3.BoolVal(False)), z3.K(T, bv(0, 64)), z3.K(U64, cs[-1])
            for i in range(elems):
                mp, mv, data = z3.Store(mp, cs[i], True), z3.Store(mv, cs[i], bv(i, 64)), z3.Store(data, bv(i, 64), cs[i])
            s0 = dict(mp=mp, mv=mv, n=bv(elems, 64), data=data)
            M.add(x == (cs[argi] if argi is not None else cs[-1]))
            M.add(sym == (argi if argi is not None else elems + 1))
        else:
            M.add(z3.ULT(s0['n'], bv(2 ** 32, 64)))
        icell = Cell(to_heap(s0))
        if builder:
            bcell = Cell([icell.v]); self_ref = Ref(bcell)
            def cur(): return from_heap(bcell.v[0])
            base = 'PortableRegistryBuilder'
        else:
            self_ref = Ref(icell)
            def cur(): return from_heap(icell.v)
            base = 'Interner::<T>'
        known, idx = z3.Select(s0['mp'], x), z3.Select(s0['mv'], x)
        sym64 = z3.ZeroExt(32, sym)
        conj, cls = [], None
        M.aux['c12_state'] = (s0, x, sym, sym64)
        if op == 'intern_or_get':
            r = M.run_fn(M.resolve(base + '::intern_or_get'), [self_ref, x])
            ins, rid = r[0], r[1][0]; s1 = cur()
            occupied = M.concrete_bool(known, 'class'); cls = 'occupied' if occupied else 'vacant'
            if occupied: conj = [('not inserted', None, lambda: z3.Not(ins)), ('id is the stored index', None, lambda: z3.ZeroExt(32, rid) == idx)] + unchanged(s0, s1)
            else:
                conj = [('inserted', None, lambda: ins), ('id == old len', None, lambda: z3.ZeroExt(32, rid) == s0['n']), ('len+1', None, lambda: s1['n'] == s0['n'] + 1),
                        ('appended value', None, lambda: z3.Select(s1['data'], s0['n']) == x),
                        ('prefix kept', 'idx', lambda i: z3.Implies(z3.ULT(i, s0['n']), z3.Select(s1['data'], i) == z3.Select(s0['data'], i))),
                        ('other keys untouched', 'key', lambda k: z3.Implies(k != x, z3.And(z3.Select(s1['mp'], k) == z3.Select(s0['mp'], k), z3.Select(s1['mv'], k) == z3.Select(s0['mv'], k))))] + inv_conjuncts(s1)
            if wrong: conj = [('WRONG id == len+1', None, lambda: z3.ZeroExt(32, rid) == s0['n'] + 1)]
        elif op == 'get':
            r = M.run_fn(M.resolve(base + '::get'), [self_ref, Ref(Cell(x))]); s1 = cur()
            some = r.discr == 1; cls = 'some' if some else 'none'
            conj = ([('known', None, lambda: known), ('stored index', None, lambda: z3.ZeroExt(32, payload(r, 1)[0][0]) == idx)] if some else [('unknown', None, lambda: z3.Not(known))]) + unchanged(s0, s1)
        elif op in ('resolve', 'builder_get'):
            if op == 'resolve': r = M.run_fn(M.resolve(base + '::resolve'), [self_ref, [sym, None]])
            else: r = M.run_fn(M.resolve(base + '::get'), [self_ref, sym])
            s1 = cur(); some = r.discr == 1; cls = 'some' if some else 'none'
            inr = z3.ULT(sym64, s0['n'])
            conj = ([('in range', None, lambda: inr), ('stored value', None, lambda: deref(M, payload(r, 1)[0]) == z3.Select(s0['data'], sym64))] if some else [('out of range', None, lambda: z3.Not(inr))]) + unchanged(s0, s1)
        elif op == 'elements':
            r = M.run_fn(M.resolve(base + '::elements'), [self_ref]); s1 = cur()
            v = deref(M, r); cls = 'slice'
            conj = [('is the vec', None, lambda: z3.And(v.len == s0['n'], v.data == s0['data']) if isinstance(v, ArrVec) else z3.BoolVal(False))] + unchanged(s0, s1)
        elif op == 'new':
            r = M.run_fn(M.resolve(base + '::new'), [])
            if builder: r = r[0]
            cls = 'new'
            conj = [('empty vec', None, lambda: M.seq_len(r[1]) == 0), ('empty map', 'key', lambda k: z3.Not(z3.Select(r[0].present, k)))]
        elif op == 'register_type':      # builder
            r0 = M.run_fn(M.resolve(base + '::next_type_id'), [self_ref])
            r = M.run_fn(M.resolve(base + '::register_type'), [self_ref, x]); s1 = cur()
            occupied = M.concrete_bool(known, 'class'); cls = 'known' if occupied else 'new'
            if occupied: conj = [('existing id', None, lambda: z3.ZeroExt(32, r) == idx)] + unchanged(s0, s1)
            else:
                conj = [('id == next_type_id() before', None, lambda: r == r0), ('id == old len', None, lambda: z3.ZeroExt(32, r) == s0['n']), ('len+1', None, lambda: s1['n'] == s0['n'] + 1),
                        ('appended value', None, lambda: z3.Select(s1['data'], s0['n']) == x),
                        ('prefix kept', 'idx', lambda i: z3.Implies(z3.ULT(i, s0['n']), z3.Select(s1['data'], i) == z3.Select(s0['data'], i)))] + inv_conjuncts(s1)
        elif op == 'next_type_id':
            r = M.run_fn(M.resolve(base + '::next_type_id'), [self_ref]); s1 = cur(); cls = 'id'
            conj = [('id == len', None, lambda: z3.ZeroExt(32, r) == s0['n'])] + unchanged(s0, s1)
        res = decide(M, s0, conj, [x], [sym64, s0['n'], idx])
        failed = [(n_, m, hyp, f) for n_, m, hyp, f in res if m is not None]
        if pre is not None:
            mdl = M.model()
            def cv(t):
                t = mdl.eval(t, model_completion=True)
                return t.as_long() if z3.is_bv_value(t) else (z3.is_true(t) if z3.is_bool(t) else str(t))
            obs = {'n_after': cv(cur()['n']) if op != 'new' else 0}
            if op == 'intern_or_get': obs.update(inserted=cv(ins), id=cv(rid))
            elif op == 'get': obs.update(id=cv(payload(r, 1)[0][0]) if some else None)
            elif op in ('resolve', 'builder_get'): obs.update(value=[i for i in range(elems + 2) if z3.is_true(mdl.eval(deref(M, payload(r, 1)[0]) == cs[i] if i < len(cs) else z3.BoolVal(False), model_completion=True))][0] if some else None)
            elif op in ('register_type', 'next_type_id'): obs.update(id=cv(r))
            M.emit('witness', cls=cls, holds=not failed, obs=obs); return
        if not failed:
            M.emit('ok', cls=cls, conjuncts=[n_ for n_, _, _, _ in res]); return
        n_, m, hyp, f = failed[0]
        # look for a small, replayable instance: pre-state with <= 4 elements, invariant instantiated completely on it
        full = inv_instances(s0, [x] + [z3.Select(s0['data'], bv(i, 64)) for i in range(5)], [bv(i, 64) for i in range(5)] + [sym64], rounds=1)
        small = M.model(z3.And(hyp + full + [z3.Not(f), z3.ULE(s0['n'], 4), z3.ULE(sym64, 8)]))
        case = {'what': ('builder.' if builder else 'interner.') + op, 'cls': cls, 'conjunct': n_}
        if small is not None: case.update(small_case(small, s0, x, sym))
        M.emit('cex', **case)
    return body


def small_case(small, s0, x, sym):
    n = small.eval(s0['n'], model_completion=True).as_long()
    univ = {}
    def name(t):
        k = str(small.eval(t, model_completion=True)); univ.setdefault(k, len(univ)); return univ[k]
    return {'pre': [name(z3.Select(s0['data'], bv(i, 64))) for i in range(n)], 'arg': name(x), 'sym': small.eval(sym, model_completion=True).as_long()}


def body_finish(n):
    """PortableRegistryBuilder::finish on a builder whose interner lists n opaque values (map side unused by finish)"""
    def body(M):
        toks = [Tok('ty%d' % i) for i in range(n)]
        b = Cell([[MapV(None, None), VecV(bv(n, 64), list(toks))]])
        r = M.run_fn(M.resolve('PortableRegistryBuilder::finish'), [Ref(b)])
        types = seq_elems(M, r[0])
        bad = len(types) != n
        viol = []
        for i, pt in enumerate(types[:n]):
            if pt[1] != toks[i]: bad = True
            viol.append(pt[0] != i)
        if bad or (viol and M.check(z3.Or(viol))): M.emit('cex', what='builder.finish', n=n)
        else: M.emit('ok', n=n)
    return body


def body_history(k):
    """bounded cross-check: k intern_or_get calls over symbolic u8 values from the empty interner against a python list model"""
    def body(M):
        M.aux['new_map'] = lambda M, c: MapV(z3.K(z3.BitVecSort(8), z3.BoolVal(False)), z3.K(z3.BitVecSort(8), bv(0, 64)))
        icell = Cell(M.run_fn(M.resolve('Interner::<T>::new'), []))
        icell.v[1] = ArrVec(bv(0, 64), z3.K(U64, bv(0, 8)))
        xs = [z3.BitVec('x%d' % i, 8) for i in range(k)]
        model = []
        viol = []
        for x in xs:
            r = M.run_fn(M.resolve('Interner::<T>::intern_or_get'), [Ref(icell), x])
            hit = None
            for j, y in enumerate(model):
                if M.concrete_bool(x == y, 'model.lookup'): hit = j; break
            if hit is None:
                model.append(x); viol += [z3.Not(r[0]), r[1][0] != len(model) - 1]
            else: viol += [r[0], r[1][0] != hit]
        for j, y in enumerate(model):
            rr = M.run_fn(M.resolve('Interner::<T>::resolve'), [Ref(icell), [bv(j, 32), None]])
            viol.append(deref(M, payload(rr, 1)[0]) != y if rr.discr == 1 else z3.BoolVal(True))
        rr = M.run_fn(M.resolve('Interner::<T>::resolve'), [Ref(icell), [bv(len(model), 32), None]])
        viol.append(z3.BoolVal(rr.discr != 0))
        m = M.model(z3.Or(viol))
        if m is not None: M.emit('cex', what='interner.history', values=[m.eval(x, model_completion=True).as_long() for x in xs])
        else: M.emit('ok', distinct=len(model))
    return body


def body_builder_history(k, dup_bias=None):
    """black-box bounded cross-check: PortableRegistryBuilder::new(), then k register_type calls over symbolic values (plus next_type_id / get / finish),
    all executed from MIR whatever the builder's fields are, against a python list model"""
    def body(M):
        def nm(M, c):
            if 'usize' in c: return MapV(z3.K(T, z3.BoolVal(False)), z3.K(T, bv(0, 64)))
            if re.search(r', u32>', c): return MapV(z3.K(T, z3.BoolVal(False)), z3.K(T, bv(0, 32)))
            return None
        M.aux['new_map'] = nm
        b = Cell(M.run_fn(M.resolve('PortableRegistryBuilder::new'), []))
        xs = [z3.Const('x%d' % i, T) for i in range(k)]
        model, viol, trace = [], [], []
        for x in xs:
            nxt = M.run_fn(M.resolve('PortableRegistryBuilder::next_type_id'), [Ref(b)])
            r = M.run_fn(M.resolve('PortableRegistryBuilder::register_type'), [Ref(b), x])
            hit = None
            for j, y in enumerate(model):
                if M.concrete_bool(x == y, 'model.lookup'): hit = j; break
            viol.append(('next_type_id == number of values', nxt != len(model)))
            if hit is None:
                model.append(x); viol.append(('new value gets the announced id', r != len(model) - 1)); trace.append(len(model) - 1)
            else:
                viol.append(('equal value gets its first id', r != hit)); trace.append(hit)
        for j in range(len(model) + 1):
            g = M.run_fn(M.resolve('PortableRegistryBuilder::get'), [Ref(b), bv(j, 32)])
            if j < len(model): viol.append(('get(i) is the stored value', deref(M, payload(g, 1)[0]) != model[j] if g.discr == 1 else z3.BoolVal(True)))
            else: viol.append(('get(len) is None', z3.BoolVal(g.discr != 0)))
        fin = M.run_fn(M.resolve('PortableRegistryBuilder::finish'), [Ref(b)])
        ts = seq_elems(M, fin[0])
        viol.append(('finish lists every value once', z3.BoolVal(len(ts) != len(model))))
        for j, pt in enumerate(ts[:len(model)]):
            viol.append(('finish: id == index', pt[0] != j)); viol.append(('finish: value at its index', pt[1] != model[j]))
        m = M.model(z3.Or([c for _, c in viol]))
        if m is None: M.emit('ok', distinct=len(model), pattern=trace)
        else: M.emit('cex', what='builder.history', pattern=trace, values=rank_vals(m, model), failed=sorted({w for w, c in viol if z3.is_true(m.eval(c, model_completion=True))})[:4])
    return body


def rank_vals(m, xs):
    """natural numbers ordered like the model's ranks of the (pairwise distinct) values xs, ties by position"""
    rank = z3.Function('rank_' + T.name(), T, z3.IntSort())
    rk = sorted(range(len(xs)), key=lambda i: (m.eval(rank(xs[i]), model_completion=True).as_long(), i))
    return [rk.index(i) for i in range(len(xs))]


def body_long_history(n, builder):
    """n pairwise distinct values interned from new(), then one more operation on a value that equals the j-th one, j symbolic: catches
    behaviour that changes with the table size (thresholds, re-hashing, caches) whatever the representation is"""
    def body(M):
        M.aux['dictmaps'] = True
        xs = [z3.Const('d%d' % i, T) for i in range(n)]
        if n > 1: M.add(z3.Distinct(xs))
        xr = z3.Const('xr', T); M.add(z3.Or([xr == x for x in xs]))
        viol = []
        if builder:
            b = Cell(M.run_fn(M.resolve('PortableRegistryBuilder::new'), []))
            for i, x in enumerate(xs): viol.append(('id of the %d-th distinct value' % i, M.run_fn(M.resolve('PortableRegistryBuilder::register_type'), [Ref(b), x]) != i))
            r = M.run_fn(M.resolve('PortableRegistryBuilder::register_type'), [Ref(b), xr])
            for i, x in enumerate(xs): viol.append(('re-registration returns the first id', z3.And(xr == x, r != i)))
            viol.append(('next_type_id after re-registration', M.run_fn(M.resolve('PortableRegistryBuilder::next_type_id'), [Ref(b)]) != n))
            ts = seq_elems(M, M.run_fn(M.resolve('PortableRegistryBuilder::finish'), [Ref(b)])[0])
            viol.append(('finish length', z3.BoolVal(len(ts) != n)))
            for i, pt in enumerate(ts[:n]): viol.append(('finish entry %d' % i, z3.Or(pt[0] != i, pt[1] != xs[i])))
        else:
            it = Cell(M.run_fn(M.resolve('Interner::<T>::new'), []))
            for i, x in enumerate(xs):
                r = M.run_fn(M.resolve('Interner::<T>::intern_or_get'), [Ref(it), x]); viol.append(('id of the %d-th distinct value' % i, z3.Or(z3.Not(r[0]), r[1][0] != i)))
            r = M.run_fn(M.resolve('Interner::<T>::intern_or_get'), [Ref(it), xr])
            viol.append(('re-interning is not an insertion', r[0]))
            for i, x in enumerate(xs): viol.append(('re-interning returns the first id', z3.And(xr == x, r[1][0] != i)))
            g = M.run_fn(M.resolve('Interner::<T>::get'), [Ref(it), Ref(Cell(xr))])
            if g.discr != 1: viol.append(('get of an interned value is Some', z3.BoolVal(True)))
            else:
                for i, x in enumerate(xs): viol.append(('get returns the first id', z3.And(xr == x, payload(g, 1)[0][0] != i)))
            els = seq_elems(M, deref(M, M.run_fn(M.resolve('Interner::<T>::elements'), [Ref(it)])))
            viol.append(('elements length', z3.BoolVal(len(els) != n)))
            for i, e in enumerate(els[:n]): viol.append(('element %d' % i, e != xs[i]))
        m = M.model(z3.Or([c for _, c in viol]))
        if m is None: M.emit('ok', n=n)
        else:
            j = [i for i, x in enumerate(xs) if z3.is_true(m.eval(xr == x, model_completion=True))]
            # the order of the values matters to order-based representations: natural numbers in the order of the model's ranks (ties by position)
            vals = rank_vals(m, xs)
            M.emit('cex', what='builder.history' if builder else 'interner.history', pattern=list(range(n)) + j[:1], values=vals + [vals[i] for i in j[:1]],
                   failed=sorted({w for w, c in viol if z3.is_true(m.eval(c, model_completion=True))})[:4])
    return body


# ----------------------------------------------------------------------------- native replay
def list_model(pre, op, arg, sym):
    if op in ('intern_or_get', 'register_type'):
        extra = {'next_before': len(pre)} if op == 'register_type' else {}
        if arg in pre: return dict(extra, inserted=False, id=pre.index(arg), after=pre)
        return dict(extra, inserted=True, id=len(pre), after=pre + [arg])
    if op == 'get': return {'id': pre.index(arg) if arg in pre else None, 'after': pre}
    if op in ('resolve', 'builder_get'): return {'value': pre[sym] if sym < len(pre) else None, 'after': pre}
    if op == 'next_type_id': return {'id': len(pre), 'after': pre}
    return None


def replay_case(ctx, case):
    nat = ctx.get_native()
    w = case['what']
    if w == 'builder.finish':
        a = nat.ask({'op': 'builder_finish', 'n': case['n']}); return not a.get('ok', False), None
    if w == 'interner.history':
        a = nat.ask({'op': 'interner_history', 'values': case['values']}); return not a.get('ok', False), None
    if w == 'builder.history':
        a = nat.ask(dict({'op': 'builder_history', 'pattern': case['pattern']}, **({'order': case['values']} if 'values' in case else {}))); return (a.get('panic') or a.get('crashed') or not a.get('ok', False)), None
    if 'pre' not in case: return False, None
    kind, op = w.split('.')
    a = nat.ask({'op': 'table_step', 'kind': kind, 'pre': case['pre'], 'step': op, 'arg': case['arg'], 'sym': min(case['sym'], 64)})
    exp = list_model(case['pre'], op, case['arg'], case['sym'])
    if exp is None: return False, None
    if a.get('panic') or a.get('setup_failed'): return True, None
    for k, v in exp.items():
        if k == 'inserted' and kind == 'builder': continue
        if a.get(k, 'missing') != v: return True, None
    return False, None


def replay(ctx, path):
    case = json.load(open(path)); rep, _ = replay_case(ctx, case)
    print('REPRODUCED' if rep else 'NOT-REPRODUCED', json.dumps(case)[:300]); return 1 if rep else 0


def translator_validation(ctx):
    """mirsym in concrete mode (explicit pre-states) and the native build must observe the same results for the same operation"""
    nat = ctx.get_native(); rng = ctx.rng
    n, skipped, dis = 0, 0, []
    for _ in range(40):
        k = rng.randint(0, 4); argi = rng.choice([None] + list(range(k))) if k else None
        for kind, op in (('interner', 'intern_or_get'), ('interner', 'get'), ('interner', 'resolve'), ('builder', 'register_type'), ('builder', 'next_type_id'), ('builder', 'builder_get')):
            h = run_harness(ctx, 'tv-%s.%s' % (kind, op), body_step(op, kind == 'builder', pre=(k, argi)), subst=SUBST, jobs=1); ctx.harnesses.pop()
            obs = h.results[0]['obs']
            arg = argi if argi is not None else k + 1
            a = nat.ask({'op': 'table_step', 'kind': kind, 'pre': list(range(k)), 'step': op, 'arg': arg, 'sym': arg})
            if a.get('setup_failed'): skipped += 1; continue
            same = obs['n_after'] == len(a['after'])
            for kk in ('id', 'inserted'):
                if kk in obs and kk in a and kind + kk != 'builderinserted': same &= obs[kk] == a[kk]
            if 'value' in obs: same &= obs['value'] == a.get('value')
            if not same: dis.append((kind, op, k, argi, obs, a))
            n += 1
    if dis: raise CheckInconclusive('encoding unsound: mirsym (concrete mode) and the native build disagree on %d vectors; first: %r' % (len(dis), dis[0]))
    ctx.validated += n
    if skipped: ctx.notes.append('%d validation vectors skipped because the native pre-state could not be built by interning' % skipped)


def run(ctx):
    Tq = ctx.thorough()
    ctx.bounds = {'interner length': '< 2^32 (the code casts indices with `as u32`; beyond that ids wrap)', 'finish: number of registered types': 6 if Tq else 4,
                  'history cross-check: operations': '5 / 3 (interner), 5 / 4 (builder, black box from new())'}
    ctx.outside = ['interners with 2^32 or more elements', 'Ord implementations of T inconsistent with Eq']
    ctx.assumptions = ['Ord on the element type is a total order consistent with == (BTreeMap modelled as a partial function keyed by equality)',
                       'representation invariant: map and vec mutually inverse on [0,len) - preserved by every operation (checked), holds for new() (checked)']
    cexs = []
    deferred = []
    def attempt(name, body, **kw):
        """a harness that cannot be executed on the current code (representation changed, unmodelled callee) is deferred, not fatal:
        the remaining harnesses may still find a violation; without one the check ends inconclusive"""
        try:
            return run_harness(ctx, name, body, **kw)
        except CheckInconclusive as e:
            deferred.append('%s: %s' % (name, str(e)[:260]))
            if ctx.harnesses and ctx.harnesses[-1].name == name: ctx.harnesses.pop()
            return None
    ops = [('intern_or_get', False), ('get', False), ('resolve', False), ('elements', False), ('new', False),
           ('register_type', True), ('next_type_id', True), ('builder_get', True), ('new', True)]
    expected_classes = {'intern_or_get': {'occupied', 'vacant'}, 'get': {'some', 'none'}, 'resolve': {'some', 'none'}, 'elements': {'slice'}, 'new': {'new'},
                        'register_type': {'known', 'new'}, 'next_type_id': {'id'}, 'builder_get': {'some', 'none'}}
    for op, b in ops:
        name = ('builder.' if b else 'interner.') + op
        try:
            h = run_harness(ctx, 'step-' + name, body_step(op, b), subst=SUBST)
        except CheckInconclusive as e:
            # e.g. the builder no longer wraps an Interner: the inductive step does not apply; the black-box histories below still do.
            deferred.append('%s: %s' % (name, str(e)[:300])); ctx.harnesses.pop() if ctx.harnesses and ctx.harnesses[-1].name == 'step-' + name else None
            continue
        cexs += [r for r in h.results if r['kind'] == 'cex']
        for r in h.results:
            if r['kind'] == 'ok':
                for cj in r['conjuncts']: ctx.obligations['%s [%s]: %s' % (name, r['cls'], cj)] = 'unsat'
            if r['kind'] == 'cex': ctx.obligations['%s [%s]: %s' % (name, r['cls'], r.get('conjunct'))] = 'sat'
        # vacuity: explicit witness states must reach every behaviour class and satisfy the spec there
        seen = set()
        for pre in ((0, None), (1, 0), (1, None), (3, 1), (3, None)):
            hw = run_harness(ctx, 'witness-%s-%s' % (name, pre), body_step(op, b, pre=pre), subst=SUBST, jobs=1); ctx.harnesses.pop()
            for r in hw.results:
                if r['kind'] == 'witness':
                    seen.add(r['cls'])
                    if not r['holds']: cexs.append({'kind': 'cex', 'what': name, 'cls': r['cls'], 'pre': list(range(pre[0])), 'arg': pre[1] if pre[1] is not None else pre[0] + 1, 'sym': pre[1] if pre[1] is not None else pre[0] + 1})
        if not expected_classes[op] <= seen: raise CheckInconclusive('vacuity: %s reached only %s on the witness states' % (name, seen))
    ctx.samples.append({'obligation': 'intern_or_get [vacant]', 'formula': 'INV(s0) and not present0[x]  =>  inserted and id == n0 and n1 == n0+1 and data1[n0] == x and prefix kept and INV(s1)', 'verdict': 'unsat (negated)'})
    for n in range((6 if Tq else 4) + 1):
        try:
            h = run_harness(ctx, 'builder.finish-%d' % n, body_finish(n), subst=SUBST)
        except CheckInconclusive as e:
            deferred.append('builder.finish-%d: %s' % (n, str(e)[:200])); ctx.harnesses.pop() if ctx.harnesses and ctx.harnesses[-1].name == 'builder.finish-%d' % n else None
            continue
        cexs += [r for r in h.results if r['kind'] == 'cex']
        ctx.obligations['finish lists value i at index i with id i, n=%d' % n] = 'unsat' if not h.kinds.get('cex') else 'sat'
    for k in range(1, (5 if Tq else 3) + 1):
        h = attempt('interner.history-%d' % k, body_history(k), subst=SUBST)
        if h is None: continue
        cexs += [r for r in h.results if r['kind'] == 'cex']
        ctx.obligations['%d intern_or_get calls from empty agree with the list model (%d paths)' % (k, sum(h.kinds.values()))] = 'unsat' if not h.kinds.get('cex') else 'sat'
    for k in range(1, (5 if Tq else 4) + 1):
        h = attempt('builder.history-%d' % k, body_builder_history(k), subst=SUBST)
        if h is None: continue
        cexs += [r for r in h.results if r['kind'] == 'cex']
        ctx.obligations['builder: new() then %d register_type calls (+ next_type_id/get/finish) agree with the list model (%d value-equality patterns)' % (k, sum(h.kinds.values()))] = 'unsat' if not h.kinds.get('cex') else 'sat'
    thr = size_threshold()
    nlong = max(40 if Tq else 20, thr + 4)     # longer than every size constant in the code of the interner / builder (size-dependent fast paths)
    ctx.bounds['long black-box history'] = '%d pairwise distinct values (largest size constant in interner/registry/portable code: %d)' % (nlong, thr)
    for nl, b in [(n_, b_) for n_ in (2, 3, 4, nlong) for b_ in (False, True)]:
        # the short ones leave the order of the values free (order-dependent representations); the long one is capped in time: on a representation
        # that forks per comparison it is deferred and the short ones decide
        h = attempt('%s.long-history-%d' % ('builder' if b else 'interner', nl), body_long_history(nl, b), subst=SUBST, timeout=120 if nl == nlong else 600)
        if h is None: continue
        cexs += [r for r in h.results if r['kind'] == 'cex']
        ctx.obligations['%s: %d pairwise distinct values from new(), then an operation on a value equal to the j-th (j symbolic) (%d paths)' % ('builder' if b else 'interner', nl, sum(h.kinds.values()))] = 'unsat' if not h.kinds.get('cex') else 'sat'
    hneg = attempt('negative-control', body_step('intern_or_get', False, wrong=True), subst=SUBST)
    if hneg is not None:
        ctx.harnesses.pop()
        if not any(r['kind'] == 'cex' for r in hneg.results): raise CheckInconclusive('negative control (returned id == len+1) was not refuted')
    ctx.notes.append('negative control (post-condition "returned id == len + 1") refuted as required')
    unreal = []
    for c in cexs:
        case = {k: v for k, v in c.items() if k != 'kind'}
        if 'pre' not in case and case['what'] not in ('builder.finish', 'interner.history', 'builder.history'):
            unreal.append(case); continue
        rep, role = replay_case(ctx, case)
        ctx.report_case(case, rep, role)
    if deferred and not ctx.violations:
        raise CheckInconclusive('inductive step not applicable to the current code and no violation found by the bounded histories: ' + '; '.join(deferred)[:1500])
    if unreal and not ctx.violations:
        raise CheckInconclusive('step obligation failed but no pre-state with <= 4 elements realises it (invariant too weak or unreachable state): ' + json.dumps(unreal[0]))
    if not ctx.violations: translator_validation(ctx)
    return finish(ctx, 'other',
                  'Inductive step per operation over the MIR of Interner<T> and PortableRegistryBuilder: arbitrary pre-state (z3 arrays, quantified bijection invariant), one operation, '
                  'duplicate-free-list specification and invariant asserted afterwards (all unsat); plus finish unrolled and bounded histories against a list model. '
                  'Not called a proof: the invariant, interpreter and std models are not machine-checked.')
