"""C17 - builders are lossless and order preserving; PhantomData members are erased; docs gating.

A Python driver enumerates typestate-valid call skeletons of the builder API (which optional setters, in which order, how many fields /
variants / params, closures whose bodies are again driver-chosen setter sequences) and executes the MIR of every builder method with
symbolic arguments: strings as opaque tokens, index u8 / discriminant u64 as bit-vectors, the type of every field as a MetaType whose
TypeId is a free 128-bit variable (so "is this field's type the PhantomData identity" is decided by the solver, not by position).
Oracle: the built Type contains exactly what was supplied, in order, minus members whose type id equals the PhantomData identity;
docs(..) kept iff the MIR was dumped with the `docs` feature, docs_always(..) always kept.  Runs on MIR dumped with docs off and on.
"""
import z3, json, itertools, random
from lib.common import *
from mirsym.engine import *
from mirsym.models import deref, payload, seq_elems, tid_of, opt_some, opt_none

PHANTOM_TID = None


def find(M, self_re, method, nargs=None):
    c = []
    for f in M.fns.values():
        if f.kind != 'fn' or f.impl is None or f.method != method: continue
        info = M.decls.impl_info(f.impl)
        if re.fullmatch(self_re, info.get('self_full') or '') and (nargs is None or len(f.args) == nargs): c.append(f)
    if len(c) != 1: raise Inconclusive('builder method %s on %s: %d candidates' % (method, self_re, len(c)))
    return c[0]


class Drv:
    """drives the builder MIR; keeps the reference model (what was supplied) alongside"""
    def __init__(self, M, rng, docs_feature):
        self.M, self.rng, self.docs_feature = M, rng, docs_feature
        self.cnt = 0
        self.tids = []

    def tok(self, p):
        self.cnt += 1; return Tok('%s%d' % (p, self.cnt))

    def docs_arg(self, n):
        ds = [self.tok('doc') for _ in range(n)]
        return ds, Ref(Cell(ValSlice(ds)))

    def ty_name(self):
        self.cnt += 1; return 'SymTy%d' % self.cnt

    def call(self, self_re, method, args, tenv=None, nargs=None):
        return self.M.run_fn(find(self.M, self_re, method, nargs), args, tenv)

    # ---- field closure: driver-chosen setter order
    def field_closure(self, named, plan):
        """plan: dict(order=[...setters...], compact=bool, docs=('docs'|'docs_always'|None, n)) ; returns (python callable, expectation dict)"""
        exp = {'name': None, 'type_name': None, 'docs': [], 'tyname': plan['tyname'], 'compact': plan.get('compact', False)}
        def clo(M, fb):
            for s in plan['order']:
                if s == 'ty':
                    m = 'compact' if plan.get('compact') else 'ty'
                    self.M.aux['typeid_of_log'] = []
                    fb = self.call(r'FieldBuilder<MetaForm, N, field_state::TypeNotAssigned>', m, [fb], tenv={'TY': plan['tyname']})
                    log = self.M.aux['typeid_of_log']
                    exp['tidname'] = log[-1] if len(log) == 1 else None
                elif s == 'name':
                    n = self.tok('fname'); exp['name'] = n
                    fb = self.call(r'FieldBuilder<F, field_state::NameNotAssigned, T>', 'name', [fb, n])
                elif s == 'type_name':
                    t = self.tok('tname'); exp['type_name'] = t
                    fb = self.call(r'FieldBuilder<F, N, T>', 'type_name', [fb, t])
                elif s in ('docs', 'docs_always'):
                    ds, arg = self.docs_arg(plan['ndocs'])
                    fb = self.call(r'FieldBuilder<MetaForm, N, T>', s, [fb, arg])
                    if s == 'docs_always' or self.docs_feature: exp['docs'] = ds
            return fb
        return clo, exp

    def rand_field_plan(self, named):
        order = ['ty'] + (['name'] if named else [])
        if self.rng.random() < 0.7: order.append('type_name')
        ndocs = self.rng.randint(0, 2)
        if self.rng.random() < 0.6: order.append(self.rng.choice(['docs', 'docs_always']))
        if self.rng.random() < 0.3: order.append(self.rng.choice(['docs', 'docs_always']))      # set twice: last one wins... only if kept
        self.rng.shuffle(order)
        return {'order': order, 'tyname': self.ty_name(), 'compact': self.rng.random() < 0.25, 'ndocs': ndocs}

    def fields(self, kind, plans):
        """kind: 'named' | 'unnamed' | 'unit' -> (FieldsBuilder value, [expectations])"""
        fb = self.call(r'Fields<F>', kind, [])
        exps = []
        for p in plans:
            clo, exp = self.field_closure(kind == 'named', p)
            fb = self.call(r'FieldsBuilder<MetaForm, %s>' % ('NamedFields' if kind == 'named' else 'UnnamedFields'), 'field', [fb, clo])
            # docs set twice: model 'last setter that is kept wins' is what the closure recorded (exp['docs'] overwritten in order)
            exps.append(exp)
        return fb, exps


def field_tid(name, compact):
    t = 'scale::Compact<%s>' % name if compact else name
    return tid_of('<%s as TypeInfo>::Identity' % t)


def field_tid_of(e):
    """the TypeId the builder asked for; must be TypeId::of::<<TY as TypeInfo>::Identity> resp. <Compact<TY> ...>"""
    nm = e.get('tidname')
    if nm is None: raise Inconclusive('ty()/compact() did not ask for exactly one TypeId')
    want = r'<(\w+::)*Compact<%s> as TypeInfo>::Identity' % e['tyname'] if e['compact'] else r'<%s as TypeInfo>::Identity' % e['tyname']
    if not re.fullmatch(want, nm): return None
    return tid_of(nm)


def expect_fields(M, exps):
    """expected field list on this path: members whose type id is the PhantomData identity are erased (decided by the path condition)"""
    out = []
    for e in exps:
        t = field_tid_of(e)
        if t is None: out.append(e); continue
        if not M.concrete_bool(t == PHANTOM, 'oracle.phantom'): out.append(e)
    return out


PHANTOM = tid_of('<PhantomData<()> as TypeInfo>::Identity')


def cmp_fields(M, got_vec, exps, bad, where):
    got = seq_elems(M, got_vec)
    if len(got) != len(exps): bad.append('%s: %d fields, expected %d' % (where, len(got), len(exps))); return
    for j, (g, e) in enumerate(zip(got, exps)):
        name, mt, tname, docs = g
        def optv(o): return payload(o, 1)[0] if (o.discr == 1 if isinstance(o.discr, int) else False) else None
        if optv(name) != e['name']: bad.append('%s[%d].name' % (where, j))
        if optv(tname) != e['type_name']: bad.append('%s[%d].type_name' % (where, j))
        if [deref(M, d) for d in seq_elems(M, docs)] != e['docs']: bad.append('%s[%d].docs' % (where, j))
        t = field_tid_of(e)
        if t is None: bad.append('%s[%d]: ty()/compact() asked for the TypeId of %s' % (where, j, e.get('tidname')))
        elif M.check(mt[1] != t): bad.append('%s[%d].ty' % (where, j))
        want_fn = r'<(\w+::)*Compact<%s> as TypeInfo>::type_info' % e['tyname'] if e['compact'] else r'<%s as TypeInfo>::type_info' % e['tyname']
        if not (isinstance(mt[0], FnItem) and re.fullmatch(want_fn, mt[0].name)): bad.append('%s[%d].fn_type_info %r' % (where, j, mt[0]))


def m_to_vec(M, a, c, fr):
    v = deref(M, a[0]); xs = seq_elems(M, v); return VecV(bv(len(xs), 64), list(xs))


def m_fn_call(M, a, c, fr):
    f = a[0]
    while isinstance(f, Ref): f = M.load(f)
    return M.call_value(f, list(a[1]))


MODELS_C17 = [(r'(alloc|std)::slice::<impl \[.*\]>::to_vec', m_to_vec), (r'<\w+ as Fn(Mut|Once)?<\(.*\)>>::call(_mut|_once)?', m_fn_call)]


def body_skeleton(seed, docs_feature, shape):
    def body(M):
        rng = random.Random(seed)
        d = Drv(M, rng, docs_feature)
        bad = []
        # ---- Type builder prefix in a random valid order
        path = [VecV(bv(2, 64), [d.tok('seg'), d.tok('seg')])]
        nparams = rng.randint(0, 2)
        params = [[d.tok('pname'), (opt_some([Tok('fnP'), z3.BitVec('ptid%d' % i, 128)]) if rng.random() < 0.6 else opt_none())] for i in range(nparams)]
        tb = M.call('ty::Type::builder', [])
        steps = ['path'] + (['type_params'] if rng.random() < 0.8 else []) + ([rng.choice(['docs', 'docs_always'])] if rng.random() < 0.7 else []) + (['type_params2'] if rng.random() < 0.2 else [])
        rng.shuffle(steps)
        exp_docs, exp_params = [], []
        for s in steps:
            if s == 'path': tb = d.call(r'TypeBuilder<F, state::PathNotAssigned>', 'path', [tb, path])
            elif s in ('type_params', 'type_params2'):
                ps = params if s == 'type_params' else params[:1]
                tb = d.call(r'TypeBuilder<F, S>', 'type_params', [tb, VecV(bv(len(ps), 64), list(ps))], tenv={'I': 'Vec<TypeParameter>'}); exp_params = list(ps)
            else:
                ds, arg = d.docs_arg(rng.randint(0, 2))
                tb = d.call(r'TypeBuilder<MetaForm, S>', s, [tb, arg])
                if s == 'docs_always' or docs_feature: exp_docs = ds
        if shape == 'composite':
            kind = rng.choice(['named', 'unnamed', 'unit'])
            plans = [] if kind == 'unit' else [d.rand_field_plan(kind == 'named') for _ in range(rng.randint(0, 3))]
            fb, exps = d.fields(kind, plans)
            ty = d.call(r'TypeBuilder<F, state::PathAssigned>', 'composite', [tb, fb], tenv={'T': {'named': 'NamedFields', 'unnamed': 'UnnamedFields', 'unit': 'NoFields'}[kind]})
            if ty[2].discr != 0: bad.append('definition kind')
            else: cmp_fields(M, payload(ty[2], 0)[0][0], expect_fields(M, exps), bad, 'fields')
        else:
            vs = M.call('build::Variants::<F>::new', [])
            vexp = []
            for vi in range(rng.randint(0, 3)):
                vname = d.tok('vname')
                if rng.random() < 0.3:
                    idx = z3.BitVec('uidx%d' % vi, 8)
                    vs = d.call(r'Variants<F>', 'variant_unit', [vs, vname, idx]); vexp.append({'name': vname, 'index': idx, 'fields': [], 'docs': []}); continue
                idx, disc = z3.BitVec('vidx%d' % vi, 8), z3.BitVec('disc%d' % vi, 64)
                kind = rng.choice(['named', 'unnamed'])
                plans = [d.rand_field_plan(kind == 'named') for _ in range(rng.randint(0, 2))]
                order = ['index'] + (['fields'] if rng.random() < 0.8 else []) + (['discriminant'] if rng.random() < 0.5 else []) + ([rng.choice(['docs', 'docs_always'])] if rng.random() < 0.6 else []) \
                    + (['fields2'] if rng.random() < 0.15 else [])
                rng.shuffle(order)
                e = {'name': vname, 'index': idx, 'fields': [], 'docs': []}
                def vclo(M, vb, order=order, e=e, kind=kind, plans=plans, idx=idx, disc=disc):
                    state = 'IndexNotAssigned'
                    for s in order:
                        if s == 'index': vb = d.call(r'VariantBuilder<F, variant_state::IndexNotAssigned>', 'index', [vb, idx])
                        elif s == 'discriminant': vb = d.call(r'VariantBuilder<F, S>', 'discriminant', [vb, disc])
                        elif s in ('fields', 'fields2'):
                            fb, exps = d.fields(kind, plans if s == 'fields' else plans[:1])
                            vb = d.call(r'VariantBuilder<F, S>', 'fields', [vb, fb]); e['fields'] = exps
                        else:
                            ds, arg = d.docs_arg(rng.randint(0, 2))
                            vb = d.call(r'VariantBuilder<MetaForm, S>', s, [vb, arg])
                            if s == 'docs_always' or docs_feature: e['docs'] = ds
                    return vb
                vs = d.call(r'Variants<F>', 'variant', [vs, vname, vclo]); vexp.append(e)
            ty = d.call(r'TypeBuilder<F, state::PathAssigned>', 'variant', [tb, vs])
            if ty[2].discr != 1: bad.append('definition kind')
            else:
                got = seq_elems(M, payload(ty[2], 1)[0][0])
                if len(got) != len(vexp): bad.append('variant count %d vs %d' % (len(got), len(vexp)))
                for j, (g, e) in enumerate(zip(got, vexp)):
                    if g[0] != e['name']: bad.append('variant[%d].name' % j)
                    if M.check(g[2] != e['index']): bad.append('variant[%d].index' % j)
                    if [deref(M, x) for x in seq_elems(M, g[3])] != e['docs']: bad.append('variant[%d].docs' % j)
                    cmp_fields(M, g[1], expect_fields(M, e['fields']), bad, 'variant[%d].fields' % j)
        # ---- common parts
        if [deref(M, x) for x in seq_elems(M, ty[0][0])] != list(path[0].elems): bad.append('path')
        gp = seq_elems(M, ty[1])
        if len(gp) != len(exp_params): bad.append('type_params count')
        for g, e in zip(gp, exp_params):
            if g[0] != e[0] or g[1].discr != e[1].discr: bad.append('type_param')
            elif e[1].discr == 1 and M.check(payload(g[1], 1)[0][1] != payload(e[1], 1)[0][1]): bad.append('type_param ty')
        if [deref(M, x) for x in seq_elems(M, ty[3])] != exp_docs: bad.append('type docs')
        if bad: M.emit('cex', what='builder', seed=seed, shape=shape, docs_feature=docs_feature, failed=bad[:6])
        else: M.emit('ok', seed=seed)
    return body


def body_tuple(n):
    """TypeDefTuple::new erases members whose type id is the PhantomData identity, keeps the rest in order"""
    def body(M):
        mts = [[Tok('fnT%d' % i), z3.BitVec('ttid%d' % i, 128)] for i in range(n)]
        r = M.run_fn(find(M, r'TypeDefTuple', 'new'), [VecV(bv(n, 64), list(mts))], {'T': 'Vec<MetaType>'})
        got = seq_elems(M, r[0])
        exp = []
        for mt in mts:
            if not M.concrete_bool(mt[1] == PHANTOM, 'oracle.phantom'): exp.append(mt)
        ok = len(got) == len(exp) and all(g[0] == e[0] and not M.check(g[1] != e[1]) for g, e in zip(got, exp))
        if ok: M.emit('ok', kept=len(exp))
        else: M.emit('cex', what='tuple', n=n, kept=len(got), expected=len(exp))
    return body


def replay_case(ctx, case):
    a = ctx.get_native().ask({'op': 'builder_laws'})
    if a.get('panic') or a.get('crashed') or a.get('failed'): return True, None
    if case.get('docs_feature'):
        a = ctx.get_native('docs').ask({'op': 'builder_laws'})
        if a.get('panic') or a.get('crashed') or a.get('failed'): return True, None
    return False, None


def replay(ctx, path):
    case = json.load(open(path)); rep, _ = replay_case(ctx, case)
    print('REPRODUCED' if rep else 'NOT-REPRODUCED', json.dumps(case)[:300]); return 1 if rep else 0


def run(ctx):
    T = ctx.thorough()
    nsk = 120 if T else 30
    ctx.bounds = {'call skeletons (seeded; setter order, optional setters, repeated setters)': '%d per feature set and shape' % nsk, 'fields per struct / variants per enum / fields per variant / params / docs': '<= 3 / 3 / 2 / 2 / 2',
                  'arguments': 'strings opaque tokens; index u8, discriminant u64 and every TypeId fully symbolic', 'feature sets': ['docs off (default)', 'docs on']}
    ctx.outside = ['the derive macro\'s use of the builders (C09, not applicable)', 'portable builders (field_portable, docs_portable) are exercised natively only']
    ctx.assumptions = ['MetaType::new::<TY> stores TypeId::of::<TY::Identity>() (executed from MIR here too)']
    cexs = []
    for fs, docs_feature in (('default', False), ('docs', True)):
        for shape in ('composite', 'variant'):
            npaths = 0
            for k in range(nsk):
                seed = ctx.seed * 100003 + k
                h = run_harness(ctx, 'builder-%s-%s-%d' % (fs, shape, k), body_skeleton(seed, docs_feature, shape), fs=fs, models=MODELS_C17)
                cexs += [r for r in h.results if r['kind'] == 'cex']; npaths += sum(h.kinds.values())
            ctx.obligations['%s builder skeletons, docs feature %s: built type == supplied parts minus PhantomData members (%d skeletons, %d paths)' % (shape, 'on' if docs_feature else 'off', nsk, npaths)] = \
                'sat' if any(c.get('shape') == shape and c.get('docs_feature') == docs_feature for c in cexs) else 'unsat'
        for n in range(4):
            h = run_harness(ctx, 'tuple-%s-%d' % (fs, n), body_tuple(n), fs=fs, models=MODELS_C17)
            cexs += [r for r in h.results if r['kind'] == 'cex']
            ctx.obligations['TypeDefTuple::new erases exactly the PhantomData members, arity %d, docs %s (%d paths)' % (n, fs, sum(h.kinds.values()))] = 'sat' if h.kinds.get('cex') else 'unsat'
    ctx.samples.append({'skeleton': 'Type::builder() -> path/type_params/docs in seeded order -> composite(Fields::named().field(|f| <seeded setter order>)...)', 'symbolic': 'type ids (phantom or not), index, discriminant'})
    seen = set()
    for c in cexs:
        case = {k: v for k, v in c.items() if k != 'kind'}
        key = json.dumps(case.get('failed'))
        if key in seen: continue
        seen.add(key)
        rep, role = replay_case(ctx, case); ctx.report_case(case, rep, role)
        if len(ctx.violations) >= 3: break
    if not ctx.violations:
        a = ctx.get_native().ask({'op': 'builder_laws'})
        if a.get('failed') or a.get('panic') or a.get('crashed'): raise CheckInconclusive('native builder battery fails although every symbolic obligation was discharged: ' + json.dumps(a)[:800])
        ctx.validated += a.get('cases', 0)
        a = ctx.get_native('docs').ask({'op': 'builder_laws'})
        if a.get('failed') or a.get('panic') or a.get('crashed') or not a.get('docs_feature'): raise CheckInconclusive('native builder battery (docs feature on) fails although every symbolic obligation was discharged: ' + json.dumps(a)[:800])
        ctx.validated += a.get('cases', 0)
    return finish(ctx, 'model_checking',
                  'Symbolic execution of the MIR of every builder method (TypeBuilder, Fields/FieldsBuilder, FieldBuilder, Variants, VariantBuilder, TypeDefTuple::new, MetaType::new/is_phantom) along '
                  'seeded typestate-valid call skeletons; arguments symbolic (type ids decide PhantomData erasure through the solver); MIR dumped with the docs feature off and on.')
