"""C03 - derived TypeInfo describes exactly the bytes derived Encode writes (engine K, two-stage).

stage 0: a seeded generator emits type definitions from the derive grammar (named/unnamed/unit structs, enums, generics instantiated at use
         sites, nested built-ins, Box, PhantomData members, explicit discriminants, #[codec(skip|compact|index)]) deriving TypeInfo + Encode.
stage 1: the replay binary (linked against /repo) dumps the PortableRegistry of every root.
stage 2: per root, a straight-line decoder is generated ONLY from that registry and the SCALE rules, a flattening of the Rust value from the
         declaration model, and a Kani harness: for EVERY value v of the type: decode(encode(v)) consumes the bytes exactly and yields the
         same variant, field order and leaf values.  Field / variant names and order are compared statically.
The program dimension is sampled (seeded); the value dimension is decided by the solver.
"""
import json, subprocess, os
from lib.common import *
from lib import kanirun

KDIR = kanirun.KDIR


def gen(args):
    r = subprocess.run(['python3', os.path.join(KDIR, 'gen.py')] + [str(a) for a in args], capture_output=True, text=True)
    if r.returncode != 0: raise CheckInconclusive('harness generator failed: ' + r.stderr[-800:])
    return r.stdout


def two_stage(ctx, tag, seed, count):
    gen(['%s-stage0' % tag, seed, count])
    # make sure a stale generated harness file cannot break the native build of the new corpus
    open(os.path.join(KDIR, 'src', '%s_gen.rs' % tag), 'w').write('// placeholder (stage 2 not generated yet)\npub fn native_all(_r: usize, _s: u64) -> Vec<(&\'static str, usize)> { vec![] }\n')
    if ctx.native is not None: ctx.native.close(); ctx.native = None
    nat = ctx.get_native()
    dump = nat.ask({'op': 'dump_corpus', 'tag': tag})
    if 'error' in dump or dump.get('panic'): raise CheckInconclusive('registry dump failed: %s' % json.dumps(dump)[:300])
    dfile = os.path.join(BUILD, 'dump_%s.json' % tag)
    json.dump(dump, open(dfile, 'w'))
    info = json.loads(gen(['%s-stage2' % tag, seed, count, dfile]))
    ctx.native.close(); ctx.native = None          # rebuild with the generated dec_/flat_ functions for native replay
    return info, dump


def run_generated(ctx, tag, pid, seed, count, timeout):
    info, dump = two_stage(ctx, tag, seed, count)
    names = info['harnesses']
    ctx.notes.append('%d roots: %s' % (len(info['types']), info['types'][:40]))
    # static part: names / order / compactness, metadata vs declaration model
    for name, pr in info['problems'].items():
        ctx.obligations['%s static (names, order, type names) %s' % (pid, pr['type'])] = 'sat'
        ctx.report_case({'what': 'static_mismatch', 'root': name, 'type': pr['type'], 'problems': pr['problems'], 'registry': dump.get(name)}, True, None)
    res = kanirun.run_many(names, timeout=timeout, jobs=8) if names else []
    ctx.kani = getattr(ctx, 'kani', []) + res
    failed = []
    for r, tyname in zip(res, [t for i, t in enumerate(info['types']) if ('%s_R%d' % (tag, i)) not in info['problems'] or True][:len(res)]):
        idx = int(r['harness'].split('_r')[-1]); tyname = info['types'][idx]
        ctx.obligations['%s forall v: %s. decode-by-metadata(encode(v)) == v, exact consumption [kani %s %.1fs]' % (pid, tyname, r['harness'], r.get('solver_s') or 0)] = 'unsat' if r['verdict'] == 'successful' else ('sat' if r['verdict'] == 'failed' else 'undecided')
        if r['verdict'] == 'failed': failed.append((r, tyname))
        elif r['verdict'] != 'successful': raise CheckInconclusive('kani harness %s (%s) undecided: %s (log %s)' % (r['harness'], tyname, r.get('why'), r['log']))
    if failed:
        a = ctx.get_native().ask({'op': 'corpus_native', 'tag': tag, 'rounds': 3000, 'seed': seed + 1})
        bad = {f['harness']: f['bad'] for f in a.get('failed', [])}
        for r, tyname in failed:
            if r['harness'] in bad:
                ctx.report_case({'what': 'value_mismatch', 'harness': r['harness'], 'type': tyname, 'failed_checks': r.get('failed_checks'), 'native_samples_failing': bad[r['harness']], 'seed': seed, 'count': count}, True, None)
        if not ctx.violations: raise CheckInconclusive('kani harness(es) %s failed but native sampling of the same decoder/flattening does not reproduce a difference' % [r['harness'] for r, _ in failed])
    elif not ctx.violations:
        a = ctx.get_native().ask({'op': 'corpus_native', 'tag': tag, 'rounds': 500, 'seed': seed + 1})
        if a.get('failed') or a.get('panic') or a.get('crashed'): raise CheckInconclusive('native sampling fails although every harness was verified: ' + json.dumps(a)[:600])
        ctx.validated += a.get('roots', 0) * 500
    return res


def replay(ctx, path):
    case = json.load(open(path))
    if case.get('what') == 'static_mismatch':
        print('REPRODUCED (static comparison of the dumped registry with the declaration)', json.dumps(case)[:300]); return 1
    tag = 'c03' if ctx.pid == 'C03' else 'c04'
    two_stage(ctx, tag, case.get('seed', 0), case.get('count', 8))
    a = ctx.get_native().ask({'op': 'corpus_native', 'tag': tag, 'rounds': 3000, 'seed': case.get('seed', 0) + 1})
    rep = any(f['harness'] == case.get('harness') for f in a.get('failed', []))
    print('REPRODUCED' if rep else 'NOT-REPRODUCED', json.dumps(case)[:300]); return 1 if rep else 0


def run(ctx):
    T = ctx.thorough()
    count = 60 if T else 19
    ctx.bounds = {'programs': '7 fixed types mirroring test_suite/tests/derive.rs + %d seeded generated type definitions (VERIF_SEED)' % count, 'values': 'every value of each type (kani::any), all integer widths full range, compact across all size classes',
                  'encoded size': '<= 96 bytes', 'nesting': 'depth <= 2; no recursive types'}
    ctx.outside = ['the program dimension is SAMPLED (seeded), not solver-decided', '#[codec(encoded_as)] (not understood by the scale-info derive; not generated)', 'recursive types (Box<Self>), Vec/String members (no kani::Arbitrary; covered for built-ins under C04)',
                   'paths and docs are not part of this property']
    ctx.assumptions = ['values inside skipped enum variants are assumed away (encoding them is not defined by the codec)', 'Kani: unwinding assertions on, default checks on, no stubs']
    res = run_generated(ctx, 'c03', 'C03', ctx.seed, count, 900 if T else 400)
    ctx.samples.append({'harness': 'c03_r1', 'type': 'enum FxIndexed { #[codec(index = 3)] A, #[codec(index = 0)] B(u8), #[codec(index = 2)] C { #[codec(compact)] x: u32, y: bool }, #[codec(skip)] D(u64), #[codec(index = 9)] E }',
                        'claim': 'forall v: first byte == metadata index of v\'s variant; fields decode in metadata order to the values of v; all bytes consumed'})
    ks = getattr(ctx, 'kani', [])
    return finish(ctx, 'model_checking',
                  'Kani/CBMC harnesses over the compiled crate, generated in two stages: registry computed natively by the real derive + Registry, schema-directed decoder generated from it, value flattening generated '
                  'from the declaration model; the solver ranges over every value of each type. Programs are sampled (seeded).',
                  extra_cov={'kani': [{k: r.get(k) for k in ('harness', 'verdict', 'wall_s', 'solver_s', 'covers', 'checks')} for r in ks], 'kani_solver_s': round(sum((r.get('solver_s') or 0) for r in ks), 1),
                             'states': max(len(ks), 1), 'transitions': max(sum((r.get('checks') or 1) for r in ks), 1)})
