//! Reference JSON document of a registry, written from the property text of C08 (keys, lower-case tags, omissions).
use scale_info::{form::PortableForm, Field, PortableRegistry, Type, TypeDef, TypeDefPrimitive};
use serde_json::{json, Map, Value};

fn put_nonempty(m: &mut Map<String, Value>, k: &str, v: Vec<Value>) { if !v.is_empty() { m.insert(k.into(), Value::Array(v)); } }
fn strs(v: &[String]) -> Vec<Value> { v.iter().map(|s| json!(s)).collect() }
fn field(f: &Field<PortableForm>) -> Value {
    let mut m = Map::new();
    if let Some(n) = &f.name { m.insert("name".into(), json!(n)); }
    m.insert("type".into(), json!(f.ty.id));
    if let Some(n) = &f.type_name { m.insert("typeName".into(), json!(n)); }
    put_nonempty(&mut m, "docs", strs(&f.docs));
    Value::Object(m)
}
fn prim(p: &TypeDefPrimitive) -> &'static str {
    use TypeDefPrimitive::*;
    match p { Bool => "bool", Char => "char", Str => "str", U8 => "u8", U16 => "u16", U32 => "u32", U64 => "u64", U128 => "u128", U256 => "u256", I8 => "i8", I16 => "i16", I32 => "i32", I64 => "i64", I128 => "i128", I256 => "i256" }
}
pub fn ty(t: &Type<PortableForm>) -> Value {
    let mut m = Map::new();
    put_nonempty(&mut m, "path", strs(&t.path.segments));
    put_nonempty(&mut m, "params", t.type_params.iter().map(|p| json!({"name": p.name, "type": p.ty.map(|x| x.id)})).collect());
    let def = match &t.type_def {
        TypeDef::Composite(c) => { let mut d = Map::new(); put_nonempty(&mut d, "fields", c.fields.iter().map(field).collect()); json!({"composite": d}) }
        TypeDef::Variant(v) => {
            let mut d = Map::new();
            put_nonempty(&mut d, "variants", v.variants.iter().map(|x| {
                let mut m = Map::new();
                m.insert("name".into(), json!(x.name)); put_nonempty(&mut m, "fields", x.fields.iter().map(field).collect()); m.insert("index".into(), json!(x.index)); put_nonempty(&mut m, "docs", strs(&x.docs));
                Value::Object(m)
            }).collect());
            json!({"variant": d})
        }
        TypeDef::Sequence(s) => json!({"sequence": {"type": s.type_param.id}}),
        TypeDef::Array(a) => json!({"array": {"len": a.len, "type": a.type_param.id}}),
        TypeDef::Tuple(t) => json!({"tuple": t.fields.iter().map(|i| i.id).collect::<Vec<_>>()}),
        TypeDef::Primitive(p) => json!({"primitive": prim(p)}),
        TypeDef::Compact(c) => json!({"compact": {"type": c.type_param.id}}),
        TypeDef::BitSequence(b) => json!({"bitsequence": {"bit_store_type": b.bit_store_type.id, "bit_order_type": b.bit_order_type.id}}),
    };
    m.insert("def".into(), def);
    put_nonempty(&mut m, "docs", strs(&t.docs));
    Value::Object(m)
}
pub fn registry(r: &PortableRegistry) -> Value {
    json!({"types": r.types.iter().map(|t| json!({"id": t.id, "type": ty(&t.ty)})).collect::<Vec<_>>()})
}
pub fn judge(r: &PortableRegistry) -> Value {
    let got = serde_json::to_value(r).unwrap();
    let shape_ok = got == registry(r);
    let back: Result<PortableRegistry, _> = serde_json::from_value(got.clone());
    let text_back: Result<PortableRegistry, _> = serde_json::from_str(&serde_json::to_string(r).unwrap());
    json!({"shape_ok": shape_ok, "roundtrip_ok": matches!(&back, Ok(b) if b == r) && matches!(&text_back, Ok(b) if b == r), "json": got})
}
