//! Registry JSON <-> PortableRegistry, and an independent reference oracle for `retain`.
use scale_info::{
    form::PortableForm, Field, Path, PortableRegistry, PortableType, Type, TypeDef, TypeDefArray, TypeDefBitSequence, TypeDefCompact,
    TypeDefComposite, TypeDefPrimitive, TypeDefSequence, TypeDefTuple, TypeDefVariant, TypeParameter, Variant,
};
use serde_json::{json, Value};
use std::collections::{BTreeMap, BTreeSet};

pub const PRIMS: [TypeDefPrimitive; 15] = [
    TypeDefPrimitive::Bool, TypeDefPrimitive::Char, TypeDefPrimitive::Str, TypeDefPrimitive::U8, TypeDefPrimitive::U16,
    TypeDefPrimitive::U32, TypeDefPrimitive::U64, TypeDefPrimitive::U128, TypeDefPrimitive::U256, TypeDefPrimitive::I8,
    TypeDefPrimitive::I16, TypeDefPrimitive::I32, TypeDefPrimitive::I64, TypeDefPrimitive::I128, TypeDefPrimitive::I256,
];

fn s(v: &Value) -> String {
    match v {
        Value::String(x) => x.clone(),
        Value::Object(o) => String::from_utf8_lossy(&o["bytes"].as_array().unwrap().iter().map(|b| b.as_u64().unwrap() as u8).collect::<Vec<_>>()).into_owned(),
        other => other.to_string(),
    }
}
fn strs(v: &Value) -> Vec<String> {
    v.as_array().map(|a| a.iter().map(s).collect()).unwrap_or_default()
}
fn opt_s(v: &Value) -> Option<String> {
    if v.is_null() { None } else { Some(s(v)) }
}
fn id(v: &Value) -> u32 {
    v.as_u64().unwrap() as u32
}

fn field(v: &Value) -> Field<PortableForm> {
    Field::new(opt_s(&v["name"]), id(&v["ty"]).into(), opt_s(&v["type_name"]), strs(&v["docs"]))
}

pub fn type_from_json(t: &Value) -> Type<PortableForm> {
    let d = &t["def"];
    let def: TypeDef<PortableForm> = if let Some(fs) = d.get("composite") {
        TypeDefComposite::new(fs.as_array().unwrap().iter().map(field)).into()
    } else if let Some(vs) = d.get("variant") {
        TypeDefVariant::new(vs.as_array().unwrap().iter().map(|v| {
            Variant::new(s(&v["name"]), v["fields"].as_array().unwrap().iter().map(field).collect(), v["index"].as_u64().unwrap() as u8, strs(&v["docs"]))
        }))
        .into()
    } else if let Some(x) = d.get("sequence") {
        TypeDefSequence::new(id(x).into()).into()
    } else if let Some(x) = d.get("array") {
        TypeDefArray::new(id(&x[0]), id(&x[1]).into()).into()
    } else if let Some(x) = d.get("tuple") {
        TypeDefTuple::new_portable(x.as_array().unwrap().iter().map(|i| id(i).into())).into()
    } else if let Some(x) = d.get("primitive") {
        PRIMS[x.as_u64().unwrap() as usize].clone().into()
    } else if let Some(x) = d.get("compact") {
        TypeDefCompact::new(id(x).into()).into()
    } else if let Some(x) = d.get("bitsequence") {
        TypeDefBitSequence::new_portable(id(&x[0]).into(), id(&x[1]).into()).into()
    } else {
        panic!("bad def {d}")
    };
    let params: Vec<TypeParameter<PortableForm>> = t["params"]
        .as_array()
        .unwrap()
        .iter()
        .map(|p| TypeParameter::new_portable(s(&p["name"]), if p["ty"].is_null() { None } else { Some(id(&p["ty"]).into()) }))
        .collect();
    Type::new(Path::from_segments_unchecked(strs(&t["path"])), params, def, strs(&t["docs"]))
}

pub fn registry_from_json(v: &Value) -> PortableRegistry {
    PortableRegistry { types: v.as_array().unwrap().iter().map(|t| PortableType::new(id(&t["id"]), type_from_json(t))).collect() }
}

fn field_json(f: &Field<PortableForm>) -> Value {
    json!({"name": f.name, "ty": f.ty.id, "type_name": f.type_name, "docs": f.docs})
}

pub fn type_to_json(t: &Type<PortableForm>) -> Value {
    let def = match &t.type_def {
        TypeDef::Composite(c) => json!({"composite": c.fields.iter().map(field_json).collect::<Vec<_>>()}),
        TypeDef::Variant(v) => json!({"variant": v.variants.iter().map(|x| json!({"name": x.name, "fields": x.fields.iter().map(field_json).collect::<Vec<_>>(), "index": x.index, "docs": x.docs})).collect::<Vec<_>>()}),
        TypeDef::Sequence(x) => json!({"sequence": x.type_param.id}),
        TypeDef::Array(x) => json!({"array": [x.len, x.type_param.id]}),
        TypeDef::Tuple(x) => json!({"tuple": x.fields.iter().map(|i| i.id).collect::<Vec<_>>()}),
        TypeDef::Primitive(p) => json!({"primitive": PRIMS.iter().position(|q| q == p).unwrap()}),
        TypeDef::Compact(x) => json!({"compact": x.type_param.id}),
        TypeDef::BitSequence(x) => json!({"bitsequence": [x.bit_store_type.id, x.bit_order_type.id]}),
    };
    json!({"path": t.path.segments, "params": t.type_params.iter().map(|p| json!({"name": p.name, "ty": p.ty.map(|x| x.id)})).collect::<Vec<_>>(), "def": def, "docs": t.docs})
}

pub fn registry_to_json(r: &PortableRegistry) -> Value {
    Value::Array(r.types.iter().map(|t| { let mut v = type_to_json(&t.ty); v["id"] = json!(t.id); v }).collect())
}

/// every id mentioned in a type, in declaration order
pub fn refs(t: &Type<PortableForm>) -> Vec<u32> {
    let mut out: Vec<u32> = t.type_params.iter().filter_map(|p| p.ty.map(|x| x.id)).collect();
    match &t.type_def {
        TypeDef::Composite(c) => out.extend(c.fields.iter().map(|f| f.ty.id)),
        TypeDef::Variant(v) => out.extend(v.variants.iter().flat_map(|x| x.fields.iter().map(|f| f.ty.id))),
        TypeDef::Sequence(x) => out.push(x.type_param.id),
        TypeDef::Array(x) => out.push(x.type_param.id),
        TypeDef::Tuple(x) => out.extend(x.fields.iter().map(|i| i.id)),
        TypeDef::Primitive(_) => {}
        TypeDef::Compact(x) => out.push(x.type_param.id),
        TypeDef::BitSequence(x) => { out.push(x.bit_store_type.id); out.push(x.bit_order_type.id) }
    }
    out
}

/// copy of a type with every id sent through `m` (None if an id is not in the map)
pub fn rename(t: &Type<PortableForm>, m: &BTreeMap<u32, u32>) -> Option<Type<PortableForm>> {
    let g = |i: u32| m.get(&i).copied();
    let fld = |f: &Field<PortableForm>| -> Option<Field<PortableForm>> { Some(Field::new(f.name.clone(), g(f.ty.id)?.into(), f.type_name.clone(), f.docs.clone())) };
    let def: TypeDef<PortableForm> = match &t.type_def {
        TypeDef::Composite(c) => TypeDefComposite::new(c.fields.iter().map(fld).collect::<Option<Vec<_>>>()?).into(),
        TypeDef::Variant(v) => TypeDefVariant::new(
            v.variants.iter().map(|x| Some(Variant::new(x.name.clone(), x.fields.iter().map(fld).collect::<Option<Vec<_>>>()?, x.index, x.docs.clone()))).collect::<Option<Vec<_>>>()?,
        )
        .into(),
        TypeDef::Sequence(x) => TypeDefSequence::new(g(x.type_param.id)?.into()).into(),
        TypeDef::Array(x) => TypeDefArray::new(x.len, g(x.type_param.id)?.into()).into(),
        TypeDef::Tuple(x) => TypeDefTuple::new_portable(x.fields.iter().map(|i| g(i.id).map(Into::into)).collect::<Option<Vec<_>>>()?).into(),
        TypeDef::Primitive(p) => p.clone().into(),
        TypeDef::Compact(x) => TypeDefCompact::new(g(x.type_param.id)?.into()).into(),
        TypeDef::BitSequence(x) => TypeDefBitSequence::new_portable(g(x.bit_store_type.id)?.into(), g(x.bit_order_type.id)?.into()).into(),
    };
    let params = t.type_params.iter().map(|p| Some(TypeParameter::new_portable(p.name.clone(), match p.ty { Some(x) => Some(g(x.id)?.into()), None => None }))).collect::<Option<Vec<_>>>()?;
    Some(Type::new(t.path.clone(), params, def, t.docs.clone()))
}

pub fn well_formed(r: &PortableRegistry) -> Result<(), String> {
    for (i, t) in r.types.iter().enumerate() {
        if t.id as usize != i { return Err(format!("entry {i} carries id {}", t.id)); }
        for x in refs(&t.ty) {
            if x as usize >= r.types.len() { return Err(format!("entry {i} mentions id {x} which does not resolve")); }
        }
    }
    Ok(())
}

/// run retain on (registry, keep) and judge the outcome against the property text
pub fn retain_oracle(types: &Value, keep: &[bool]) -> Value {
    let orig = registry_from_json(types);
    if let Err(e) = well_formed(&orig) { return json!({"skip": format!("input not well-formed: {e}")}); }
    let mut reg = orig.clone();
    let map = reg.retain(|i| keep.get(i as usize).copied().unwrap_or(false));
    // reference: reachability from the accepted ids
    let mut reach: BTreeSet<u32> = BTreeSet::new();
    let mut stack: Vec<u32> = (0..orig.types.len() as u32).filter(|i| keep.get(*i as usize).copied().unwrap_or(false)).collect();
    while let Some(i) = stack.pop() {
        if reach.insert(i) { stack.extend(refs(&orig.types[i as usize].ty)); }
    }
    let mut why: Vec<String> = vec![];
    if let Err(e) = well_formed(&reg) { why.push(format!("result not well-formed: {e}")); }
    let keys: BTreeSet<u32> = map.keys().copied().collect();
    if keys != reach { why.push(format!("map keys {keys:?} != reachable {reach:?}")); }
    let vals: BTreeSet<u32> = map.values().copied().collect();
    if vals.len() != map.len() || vals != (0..reg.types.len() as u32).collect() { why.push(format!("map {map:?} is not a bijection onto 0..{}", reg.types.len())); }
    for (o, n) in &map {
        match (orig.types.get(*o as usize), reg.types.get(*n as usize)) {
            (Some(a), Some(b)) => match rename(&a.ty, &map) {
                Some(e) if e == b.ty => {}
                _ => why.push(format!("entry {o}->{n} is not the original with ids renamed")),
            },
            _ => why.push(format!("mapping {o}->{n} out of range")),
        }
    }
    json!({"ok": why.is_empty(), "why": why, "map": map.iter().map(|(k, v)| vec![*k, *v]).collect::<Vec<_>>(), "result": registry_to_json(&reg)})
}
