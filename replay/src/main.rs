#![recursion_limit = "4096"]
//! Native replay / translator-validation binary: one JSON command per stdin line, one JSON answer per stdout line.
//! Linked against /repo's working tree; rebuilt by every check.
use scale_info::{Path, PathError};
#[allow(unused_imports)]
use scale_info::TypeInfo;
use serde_json::{json, Value};
use std::io::{BufRead, Write};

mod builders;
#[path = "../../kani/src/corpus_c03.rs"]
mod corpus_c03;
#[path = "../../kani/src/dec.rs"]
mod dec;
#[path = "../../kani/src/c03_gen.rs"]
mod c03_gen;
#[path = "../../kani/src/corpus_c04.rs"]
mod corpus_c04;
#[path = "../../kani/src/c04_gen.rs"]
mod c04_gen;
mod jsonref;
mod laws;
mod meta;
mod ops;
mod reg;
mod v14;

/// tracking allocator: the largest single request since the last reset; requests above 256 MiB are refused (the process then aborts in
/// handle_alloc_error, which the driver observes as a crash) - used by the memory clause of C14
pub struct Tracking;
pub static MAX_REQ: std::sync::atomic::AtomicUsize = std::sync::atomic::AtomicUsize::new(0);
unsafe impl std::alloc::GlobalAlloc for Tracking {
    unsafe fn alloc(&self, l: std::alloc::Layout) -> *mut u8 {
        MAX_REQ.fetch_max(l.size(), std::sync::atomic::Ordering::Relaxed);
        if l.size() > (1 << 28) { return std::ptr::null_mut(); }
        std::alloc::System.alloc(l)
    }
    unsafe fn dealloc(&self, p: *mut u8, l: std::alloc::Layout) { std::alloc::System.dealloc(p, l) }
    unsafe fn realloc(&self, p: *mut u8, l: std::alloc::Layout, n: usize) -> *mut u8 {
        MAX_REQ.fetch_max(n, std::sync::atomic::Ordering::Relaxed);
        if n > (1 << 28) { return std::ptr::null_mut(); }
        std::alloc::System.realloc(p, l, n)
    }
}
#[global_allocator]
static GLOBAL: Tracking = Tracking;

fn leak(s: &str) -> &'static str {
    Box::leak(s.to_owned().into_boxed_str())
}

fn bytes_to_str(v: &Value) -> Option<&'static str> {
    let b: Vec<u8> = v.as_array()?.iter().map(|x| x.as_u64().unwrap() as u8).collect();
    String::from_utf8(b).ok().map(|s| leak(&s))
}

fn path_result(r: Result<Path, PathError>) -> Value {
    match r {
        Ok(p) => json!({"ok": p.segments.iter().map(|s| s.as_bytes().to_vec()).collect::<Vec<_>>()}),
        Err(PathError::MissingSegments) => json!({"err": "missing"}),
        Err(PathError::InvalidIdentifier { segment }) => json!({"err": "invalid", "segment": segment}),
    }
}

fn catch<F: FnOnce() -> Value + std::panic::UnwindSafe>(f: F) -> Value {
    match std::panic::catch_unwind(f) {
        Ok(v) => v,
        Err(_) => json!({"panic": true}),
    }
}

fn handle(cmd: &Value) -> Value {
    let op = cmd["op"].as_str().unwrap_or("");
    match op {
        "ping" => json!({"pong": true}),
        // segs: list of byte lists (must be UTF-8)
        "from_segments" => {
            let segs: Option<Vec<&'static str>> = cmd["segs"].as_array().unwrap().iter().map(bytes_to_str).collect();
            match segs {
                None => json!({"skip": "not utf-8"}),
                Some(segs) => catch(move || path_result(Path::from_segments(segs))),
            }
        }
        "path_new" => {
            let (i, m) = (bytes_to_str(&cmd["ident"]), bytes_to_str(&cmd["module"]));
            match (i, m) {
                (Some(i), Some(m)) => catch(move || path_result(Ok(Path::new(i, m)))),
                _ => json!({"skip": "not utf-8"}),
            }
        }
        "path_new_with_replace" => {
            let (i, m) = (bytes_to_str(&cmd["ident"]), bytes_to_str(&cmd["module"]));
            let reps: Option<Vec<(&'static str, &'static str)>> = cmd["replace"]
                .as_array()
                .unwrap()
                .iter()
                .map(|p| Some((bytes_to_str(&p[0])?, bytes_to_str(&p[1])?)))
                .collect();
            match (i, m, reps) {
                (Some(i), Some(m), Some(reps)) => catch(move || path_result(Ok(Path::new_with_replace(i, m, &reps)))),
                _ => json!({"skip": "not utf-8"}),
            }
        }
        _ => {
            let c = cmd.clone();
            let o = op.to_owned();
            catch(move || ops::handle(&o, &c))
        }
    }
}

fn main() {
    std::panic::set_hook(Box::new(|_| {}));
    let stdin = std::io::stdin();
    let out = std::io::stdout();
    let mut out = out.lock();
    for line in stdin.lock().lines() {
        let line = line.unwrap();
        if line.trim().is_empty() {
            continue;
        }
        let cmd: Value = serde_json::from_str(&line).unwrap();
        let ans = handle(&cmd);
        writeln!(out, "{}", ans).unwrap();
        out.flush().unwrap();
    }
}
