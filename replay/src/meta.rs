//! Native confirmation of MetaType laws and alias coherence (C16, C05).
use scale_info::{meta_type, MetaType};
use serde_json::{json, Value};
use std::collections::hash_map::DefaultHasher;
use std::collections::VecDeque;
use std::hash::{Hash, Hasher};
use std::marker::PhantomData;
use std::rc::Rc;
use std::sync::Arc;

fn h(m: &MetaType) -> u64 {
    let mut s = DefaultHasher::new();
    m.hash(&mut s);
    s.finish()
}

fn same(a: MetaType, b: MetaType) -> bool {
    a == b && a.cmp(&b) == std::cmp::Ordering::Equal && a.partial_cmp(&b) == Some(std::cmp::Ordering::Equal) && h(&a) == h(&b) && a.type_id() == b.type_id()
}

fn differ(a: MetaType, b: MetaType) -> bool {
    a != b && a.cmp(&b) != std::cmp::Ordering::Equal && a.cmp(&b) == b.cmp(&a).reverse() && a.partial_cmp(&b) == Some(a.cmp(&b)) && a.type_id() != b.type_id()
}


pub fn laws() -> Value {
    // alias-agnostic: for every pair of a corpus, equal type ids <=> equal/ordered/hashed alike and equal definitions; otherwise they differ consistently
    macro_rules! c { ($($t:ty),* $(,)?) => { vec![$((stringify!($t), meta_type::<$t>())),*] }; }
    let corpus: Vec<(&str, MetaType)> = c!(u8, u16, u32, str, String, [u8], Vec<u8>, VecDeque<u8>, &'static [u8], Vec<u16>, Box<u32>, Rc<u32>, Arc<u32>, &'static u32, &'static mut u32,
        Option<u8>, Option<u16>, (u8, u16), (u16, u8), PhantomData<u8>, PhantomData<String>, PhantomData<()>, Box<Rc<u8>>, Box<Vec<u8>>, Arc<String>, [u8; 2], [u8; 3],
        std::ops::Range<u8>, std::ops::RangeInclusive<u8>, std::ops::Range<u32>, std::ops::RangeInclusive<u32>, Result<u8, u16>, Result<u16, u8>, std::time::Duration, std::collections::BTreeMap<u8, u16>,
        std::collections::BTreeSet<u8>, std::collections::BinaryHeap<u8>, std::borrow::Cow<'static, u8>, scale::Compact<u8>, scale::Compact<u16>, std::num::NonZeroU8, std::num::NonZeroU16, std::num::NonZeroI8, (u8,), ((u8,),), bool, i8, u64, i64, u128);
    let mut bad: Vec<String> = vec![];
    let mut pairs = 0;
    for (na, a) in &corpus {
        for (nb, b) in &corpus {
            pairs += 1;
            let ok = if a.type_id() == b.type_id() { same(*a, *b) && a.type_info() == b.type_info() } else { differ(*a, *b) };
            if !ok { bad.push(format!("{na} / {nb}")); }
        }
    }
    json!({"laws_ok": bad.is_empty(), "aliases_ok": bad.is_empty(), "failed": bad, "cases": pairs})
}


/// the Identity each built-in constructor declares, read off rustc's own type names: probes with an argument that is itself an alias
/// (String -> str) and with a leaf argument (u8), so that `Identity = T` can be told from `Identity = T::Identity`
pub fn identity_probe() -> Value {
    use scale_info::TypeInfo;
    use std::any::type_name as tn;
    fn id<T: TypeInfo + ?Sized + 'static>() -> &'static str { tn::<T::Identity>() }
    let mut m = serde_json::Map::new();
    macro_rules! p { ($k:expr, $a:ty, $l:ty) => { m.insert($k.to_string(), json!({"alias_arg": id::<$a>(), "leaf_arg": id::<$l>(), "self_alias": tn::<$a>(), "self_leaf": tn::<$l>()})); }; }
    p!("Box", Box<String>, Box<u8>); p!("Rc", Rc<String>, Rc<u8>); p!("Arc", Arc<String>, Arc<u8>); p!("Ref", &'static String, &'static u8); p!("RefMut", &'static mut String, &'static mut u8);
    p!("Vec", Vec<String>, Vec<u8>); p!("VecDeque", VecDeque<String>, VecDeque<u8>); p!("Slice", [String], [u8]); p!("Phantom", PhantomData<String>, PhantomData<u8>);
    p!("Option", Option<String>, Option<u8>); p!("BTreeSet", std::collections::BTreeSet<String>, std::collections::BTreeSet<u8>); p!("BinaryHeap", std::collections::BinaryHeap<String>, std::collections::BinaryHeap<u8>);
    p!("Cow", std::borrow::Cow<'static, String>, std::borrow::Cow<'static, u8>); p!("Compact", scale::Compact<u32>, scale::Compact<u8>); p!("Range", std::ops::Range<String>, std::ops::Range<u8>);
    p!("RangeInclusive", std::ops::RangeInclusive<String>, std::ops::RangeInclusive<u8>);
    p!("String", String, String); p!("Str", str, str); p!("Duration", std::time::Duration, std::time::Duration);
    m.insert("names".to_string(), json!({"String": tn::<String>(), "str": tn::<str>(), "u8": tn::<u8>(), "unit_phantom": tn::<PhantomData<()>>()}));
    Value::Object(m)
}
