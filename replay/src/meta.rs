//! Native confirmation of MetaType laws and alias coherence (C16, C05).
use scale_info::{meta_type, MetaType};
use serde_json::{json, Value};
use std::collections::hash_map::DefaultHasher;
use std::collections::VecDeque;
use std::hash::{Hash, Hasher};
use std::marker::PhantomData;
use std::rc::Rc;
use std::sync::Arc;

fn h(m: &MetaType) -> u64 {
    let mut s = DefaultHasher::new();
    m.hash(&mut s);
    s.finish()
}

fn same(a: MetaType, b: MetaType) -> bool {
    a == b && a.cmp(&b) == std::cmp::Ordering::Equal && a.partial_cmp(&b) == Some(std::cmp::Ordering::Equal) && h(&a) == h(&b) && a.type_id() == b.type_id()
}

fn differ(a: MetaType, b: MetaType) -> bool {
    a != b && a.cmp(&b) != std::cmp::Ordering::Equal && a.cmp(&b) == b.cmp(&a).reverse() && a.partial_cmp(&b) == Some(a.cmp(&b)) && a.type_id() != b.type_id()
}


pub fn laws() -> Value {
    // alias-agnostic: for every pair of a corpus, equal type ids <=> equal/ordered/hashed alike and equal definitions; otherwise they differ consistently
    macro_rules! c { ($($t:ty),* $(,)?) => { vec![$((stringify!($t), meta_type::<$t>())),*] }; }
    let corpus: Vec<(&str, MetaType)> = c!(u8, u16, u32, str, String, [u8], Vec<u8>, VecDeque<u8>, &'static [u8], Vec<u16>, Box<u32>, Rc<u32>, Arc<u32>, &'static u32, &'static mut u32,
        Option<u8>, Option<u16>, (u8, u16), (u16, u8), PhantomData<u8>, PhantomData<String>, PhantomData<()>, Box<Rc<u8>>, Box<Vec<u8>>, Arc<String>, [u8; 2], [u8; 3]);
    let mut bad: Vec<String> = vec![];
    let mut pairs = 0;
    for (na, a) in &corpus {
        for (nb, b) in &corpus {
            pairs += 1;
            let ok = if a.type_id() == b.type_id() { same(*a, *b) && a.type_info() == b.type_info() } else { differ(*a, *b) };
            if !ok { bad.push(format!("{na} / {nb}")); }
        }
    }
    json!({"laws_ok": bad.is_empty(), "aliases_ok": bad.is_empty(), "failed": bad, "cases": pairs})
}
