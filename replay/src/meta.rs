//! Native confirmation of MetaType laws and alias coherence (C16, C05).
use scale_info::{meta_type, MetaType, TypeInfo};
use serde_json::{json, Value};
use std::collections::hash_map::DefaultHasher;
use std::collections::VecDeque;
use std::hash::{Hash, Hasher};
use std::marker::PhantomData;
use std::rc::Rc;
use std::sync::Arc;

fn h(m: &MetaType) -> u64 {
    let mut s = DefaultHasher::new();
    m.hash(&mut s);
    s.finish()
}

fn same(a: MetaType, b: MetaType) -> bool {
    a == b && a.cmp(&b) == std::cmp::Ordering::Equal && a.partial_cmp(&b) == Some(std::cmp::Ordering::Equal) && h(&a) == h(&b) && a.type_id() == b.type_id()
}

fn differ(a: MetaType, b: MetaType) -> bool {
    a != b && a.cmp(&b) != std::cmp::Ordering::Equal && a.cmp(&b) == b.cmp(&a).reverse() && a.partial_cmp(&b) == Some(a.cmp(&b)) && a.type_id() != b.type_id()
}

fn alias<A: TypeInfo + 'static + ?Sized, B: TypeInfo + 'static + ?Sized>() -> bool {
    same(meta_type::<A>(), meta_type::<B>()) && A::type_info() == B::type_info()
}

pub fn laws() -> Value {
    // same identity, different function pointers
    let mut laws: Vec<(&str, bool)> = vec![];
    laws.push(("Vec<u8> ~ [u8]", same(meta_type::<Vec<u8>>(), meta_type::<[u8]>())));
    laws.push(("String ~ str", same(meta_type::<String>(), meta_type::<str>())));
    laws.push(("u8 != u16", differ(meta_type::<u8>(), meta_type::<u16>())));
    laws.push(("Vec<u8> != Vec<u16>", differ(meta_type::<Vec<u8>>(), meta_type::<Vec<u16>>())));
    laws.push(("Option<u8> != Option<u16>", differ(meta_type::<Option<u8>>(), meta_type::<Option<u16>>())));
    laws.push(("(u8,u16) != (u16,u8)", differ(meta_type::<(u8, u16)>(), meta_type::<(u16, u8)>())));
    let mut al: Vec<(&str, bool)> = vec![];
    al.push(("Box<u32>", alias::<Box<u32>, u32>()));
    al.push(("Rc<u32>", alias::<Rc<u32>, u32>()));
    al.push(("Arc<u32>", alias::<Arc<u32>, u32>()));
    al.push(("&u32", alias::<&'static u32, u32>()));
    al.push(("&mut u32", alias::<&'static mut u32, u32>()));
    al.push(("Vec<u32>", alias::<Vec<u32>, [u32]>()));
    al.push(("VecDeque<u32>", alias::<VecDeque<u32>, [u32]>()));
    al.push(("&[u32]", alias::<&'static [u32], [u32]>()));
    al.push(("String", alias::<String, str>()));
    al.push(("PhantomData<u8> ~ PhantomData<String>", alias::<PhantomData<u8>, PhantomData<String>>()));
    al.push(("PhantomData<Vec<u8>> ~ PhantomData<()>", alias::<PhantomData<Vec<u8>>, PhantomData<()>>()));
    let bad: Vec<&str> = laws.iter().chain(al.iter()).filter(|x| !x.1).map(|x| x.0).collect();
    json!({"laws_ok": laws.iter().all(|x| x.1), "aliases_ok": al.iter().all(|x| x.1), "failed": bad, "cases": laws.len() + al.len()})
}
