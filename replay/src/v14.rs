//! Reference encoder / decoder of the V14 registry layout written from the property text (C06), independent of the library's derives.
use scale_info::{
    form::PortableForm, Field, Path, PortableRegistry, PortableType, Type, TypeDef, TypeDefArray, TypeDefBitSequence, TypeDefCompact, TypeDefComposite,
    TypeDefSequence, TypeDefTuple, TypeDefVariant, TypeParameter, Variant,
};

/// byte sink: Vec<u8> natively, a fixed array under Kani
pub trait Sink { fn push(&mut self, b: u8); }
impl Sink for Vec<u8> { fn push(&mut self, b: u8) { Vec::push(self, b) } }

pub fn prim_index(p: &scale_info::TypeDefPrimitive) -> u8 {
    use scale_info::TypeDefPrimitive::*;
    match p { Bool => 0, Char => 1, Str => 2, U8 => 3, U16 => 4, U32 => 5, U64 => 6, U128 => 7, U256 => 8, I8 => 9, I16 => 10, I32 => 11, I64 => 12, I128 => 13, I256 => 14 }
}
pub fn prim_of(i: u8) -> Option<scale_info::TypeDefPrimitive> {
    use scale_info::TypeDefPrimitive::*;
    Some(match i { 0 => Bool, 1 => Char, 2 => Str, 3 => U8, 4 => U16, 5 => U32, 6 => U64, 7 => U128, 8 => U256, 9 => I8, 10 => I16, 11 => I32, 12 => I64, 13 => I128, 14 => I256, _ => return None })
}
fn le32<S: Sink>(out: &mut S, v: u32) { out.push(v as u8); out.push((v >> 8) as u8); out.push((v >> 16) as u8); out.push((v >> 24) as u8) }
pub fn compact<S: Sink>(out: &mut S, v: u32) {
    if v < 1 << 6 { out.push((v as u8) << 2) }
    else if v < 1 << 14 { let w = ((v as u16) << 2) | 1; out.push(w as u8); out.push((w >> 8) as u8) }
    else if v < 1 << 30 { le32(out, (v << 2) | 2) }
    else { out.push(3); le32(out, v) }
}
fn string<S: Sink>(out: &mut S, s: &str) { compact(out, s.len() as u32); let b = s.as_bytes(); let mut i = 0; while i < b.len() { out.push(b[i]); i += 1 } }
fn strings<S: Sink>(out: &mut S, v: &[String]) { compact(out, v.len() as u32); let mut i = 0; while i < v.len() { string(out, &v[i]); i += 1 } }
fn opt_string<S: Sink>(out: &mut S, s: &Option<String>) { match s { None => out.push(0), Some(s) => { out.push(1); string(out, s) } } }
pub fn field<S: Sink>(out: &mut S, f: &Field<PortableForm>) { opt_string(out, &f.name); compact(out, f.ty.id); opt_string(out, &f.type_name); strings(out, &f.docs) }
fn fields<S: Sink>(out: &mut S, v: &[Field<PortableForm>]) { compact(out, v.len() as u32); let mut i = 0; while i < v.len() { field(out, &v[i]); i += 1 } }
pub fn variant<S: Sink>(out: &mut S, x: &Variant<PortableForm>) { string(out, &x.name); fields(out, &x.fields); out.push(x.index); strings(out, &x.docs) }
pub fn param<S: Sink>(out: &mut S, p: &TypeParameter<PortableForm>) { string(out, &p.name); match p.ty { None => out.push(0), Some(i) => { out.push(1); compact(out, i.id) } } }

pub fn encode_typedef<S: Sink>(out: &mut S, d: &TypeDef<PortableForm>) {
    match d {
        TypeDef::Composite(c) => { out.push(0); fields(out, &c.fields) }
        TypeDef::Variant(v) => { out.push(1); compact(out, v.variants.len() as u32); let mut i = 0; while i < v.variants.len() { variant(out, &v.variants[i]); i += 1 } }
        TypeDef::Sequence(s) => { out.push(2); compact(out, s.type_param.id) }
        TypeDef::Array(a) => { out.push(3); le32(out, a.len); compact(out, a.type_param.id) }
        TypeDef::Tuple(t) => { out.push(4); compact(out, t.fields.len() as u32); let mut i = 0; while i < t.fields.len() { compact(out, t.fields[i].id); i += 1 } }
        TypeDef::Primitive(p) => { out.push(5); out.push(prim_index(p)) }
        TypeDef::Compact(c) => { out.push(6); compact(out, c.type_param.id) }
        TypeDef::BitSequence(b) => { out.push(7); compact(out, b.bit_store_type.id); compact(out, b.bit_order_type.id) }
    }
}

pub fn encode_type<S: Sink>(out: &mut S, t: &Type<PortableForm>) {
    strings(out, &t.path.segments);
    compact(out, t.type_params.len() as u32);
    let mut i = 0; while i < t.type_params.len() { param(out, &t.type_params[i]); i += 1 }
    encode_typedef(out, &t.type_def);
    strings(out, &t.docs);
}

pub fn encode_registry_to<S: Sink>(out: &mut S, r: &PortableRegistry) {
    compact(out, r.types.len() as u32);
    let mut i = 0; while i < r.types.len() { compact(out, r.types[i].id); encode_type(out, &r.types[i].ty); i += 1 }
}

pub fn encode_registry(r: &PortableRegistry) -> Vec<u8> {
    let mut out = vec![];
    encode_registry_to(&mut out, r);
    out
}

pub struct Rd<'a> { pub b: &'a [u8], pub p: usize }
impl<'a> Rd<'a> {
    fn byte(&mut self) -> Option<u8> { let x = *self.b.get(self.p)?; self.p += 1; Some(x) }
    fn compact(&mut self) -> Option<u32> {
        let b0 = self.byte()?;
        Some(match b0 & 3 {
            0 => (b0 >> 2) as u32,
            1 => (u16::from_le_bytes([b0, self.byte()?]) >> 2) as u32,
            2 => u32::from_le_bytes([b0, self.byte()?, self.byte()?, self.byte()?]) >> 2,
            _ => u32::from_le_bytes([self.byte()?, self.byte()?, self.byte()?, self.byte()?]),
        })
    }
    fn string(&mut self) -> Option<String> {
        let n = self.compact()? as usize;
        let s = self.b.get(self.p..self.p.checked_add(n)?)?; self.p += n;
        String::from_utf8(s.to_vec()).ok()
    }
    fn vec<T>(&mut self, mut f: impl FnMut(&mut Self) -> Option<T>) -> Option<Vec<T>> {
        let n = self.compact()? as usize;
        if n > self.b.len() { return None }
        let mut v = vec![]; for _ in 0..n { v.push(f(self)?) } Some(v)
    }
    fn opt<T>(&mut self, f: impl FnOnce(&mut Self) -> Option<T>) -> Option<Option<T>> { match self.byte()? { 0 => Some(None), 1 => Some(Some(f(self)?)), _ => None } }
    fn field(&mut self) -> Option<Field<PortableForm>> {
        let name = self.opt(|r| r.string())?; let ty = self.compact()?; let tn = self.opt(|r| r.string())?; let docs = self.vec(|r| r.string())?;
        Some(Field::new(name, ty.into(), tn, docs))
    }
    pub fn ty(&mut self) -> Option<Type<PortableForm>> {
        let path = self.vec(|r| r.string())?;
        let params = self.vec(|r| { let n = r.string()?; let t = r.opt(|r| r.compact())?; Some(TypeParameter::new_portable(n, t.map(Into::into))) })?;
        let def: TypeDef<PortableForm> = match self.byte()? {
            0 => TypeDefComposite::new(self.vec(|r| r.field())?).into(),
            1 => TypeDefVariant::new(self.vec(|r| { let n = r.string()?; let f = r.vec(|r| r.field())?; let i = r.byte()?; let d = r.vec(|r| r.string())?; Some(Variant::new(n, f, i, d)) })?).into(),
            2 => TypeDefSequence::new(self.compact()?.into()).into(),
            3 => { let l = u32::from_le_bytes([self.byte()?, self.byte()?, self.byte()?, self.byte()?]); TypeDefArray::new(l, self.compact()?.into()).into() }
            4 => TypeDefTuple::new_portable(self.vec(|r| r.compact().map(Into::into))?).into(),
            5 => prim_of(self.byte()?)?.into(),
            6 => TypeDefCompact::new(self.compact()?.into()).into(),
            7 => { let s = self.compact()?; let o = self.compact()?; TypeDefBitSequence::new_portable(s.into(), o.into()).into() }
            _ => return None,
        };
        let docs = self.vec(|r| r.string())?;
        Some(Type::new(Path::from_segments_unchecked(path), params, def, docs))
    }
    pub fn registry(&mut self) -> Option<PortableRegistry> {
        Some(PortableRegistry { types: self.vec(|r| { let id = r.compact()?; Some(PortableType::new(id, r.ty()?)) })? })
    }
}
