//! Native registration-law battery: confirms (never decides) violations of C01/C02/C05/C11 found by the symbolic step.
#![allow(dead_code)]
use crate::reg::{rename, well_formed};
use scale::Encode;
use scale_info::{
    build::Fields, form::{MetaForm, PortableForm}, meta_type, MetaType, Path, PortableRegistry, Registry, Type, TypeDef, TypeInfo,
};
use serde_json::{json, Value};
use std::any::TypeId;
use std::collections::{BTreeMap, VecDeque};
use std::marker::PhantomData;
use std::rc::Rc;
use std::sync::atomic::{AtomicUsize, Ordering};
use std::sync::Arc;

#[derive(TypeInfo)]
struct Rec { next: Option<Box<Rec>>, kids: Vec<Rec>, v: u8 }
#[derive(TypeInfo)]
struct MA { b: Vec<MB>, x: u16 }
#[derive(TypeInfo)]
struct MB { a: Option<Box<MA>>, y: (u8, String) }
#[derive(TypeInfo)]
struct G<T> { t: T, o: Option<T> }
/// docs of E
#[derive(TypeInfo)]
enum E { X, #[codec(index = 7)] Y(u32), Z { a: G<u8>, p: PhantomData<u64>, #[codec(compact)] c: u64 } }
#[derive(TypeInfo)]
struct Tup(u8, PhantomData<String>, [u16; 4]);

/// two instantiations whose definitions are identical (the parameter is skipped): distinct identities must still get distinct ids
#[derive(TypeInfo)]
#[scale_info(skip_type_params(M))]
struct Quantity<M> { amount: u32, unit: PhantomData<M> }
struct Metres;
struct Feet;

static COUNT: AtomicUsize = AtomicUsize::new(0);
struct Counted;
impl TypeInfo for Counted {
    type Identity = Self;
    fn type_info() -> Type {
        COUNT.fetch_add(1, Ordering::SeqCst);
        Type::builder()
            .path(Path::new("Counted", module_path!()))
            .composite(Fields::named().field(|f| f.ty::<Rec>().name("r").type_name("Rec")).field(|f| f.ty::<Box<Counted>>().name("me").type_name("Box<Counted>")))
    }
}

/// hand-written metadata with documentation and type names everywhere (docs_always: independent of the docs feature)
struct Documented;
impl TypeInfo for Documented {
    type Identity = Self;
    fn type_info() -> Type {
        use scale_info::build::Variants;
        Type::builder()
            .path(Path::new("Documented", module_path!()))
            .type_params(vec![scale_info::TypeParameter::new("T", Some(meta_type::<u16>())), scale_info::TypeParameter::new("U", None)])
            .docs_always(&["type doc 1", "", "type doc 2", "", ""])
            .variant(
                Variants::new()
                    .variant("A", |v| v.index(3).docs_always(&["variant A doc", ""]).fields(Fields::named().field(|f| f.ty::<u8>().name("a").type_name("u8").docs_always(&["", "field a doc", " "])).field(|f| f.compact::<u32>().name("b").type_name("u32"))))
                    .variant("B", |v| v.index(200).docs_always(&["variant B doc", "more"]).fields(Fields::unnamed().field(|f| f.ty::<Vec<Documented>>().type_name("Vec < Documented >").docs_always(&["unnamed doc"])).field(|f| f.ty::<u64>().type_name("< T as Config > :: Hash , u64 ; 4"))))
                    .variant_unit("C", 7),
            )
    }
}

struct Root { name: &'static str, mt: fn() -> MetaType, alias_of: Option<usize> }

fn roots() -> Vec<Root> {
    macro_rules! r { ($t:ty) => { Root { name: stringify!($t), mt: || meta_type::<$t>(), alias_of: None } };
                     ($t:ty, $a:expr) => { Root { name: stringify!($t), mt: || meta_type::<$t>(), alias_of: Some($a) } }; }
    vec![
        r!(u8), r!(u16), r!(bool), r!(str), r!([u8]), r!(Rec), r!(MA), r!(MB), r!(E), r!(G<u8>), r!(G<Rec>), r!(Counted), r!(Tup),      // 0..=12
        r!(String, 3), r!(Vec<u8>, 4), r!(VecDeque<u8>, 4), r!(&'static [u8], 4), r!(Box<u8>, 0), r!(Rc<u8>, 0), r!(Arc<u8>, 0), r!(&'static u8, 0), r!(&'static mut u8, 0),   // 13..=21
        r!(Box<Rec>, 5), r!(PhantomData<u8>), r!(PhantomData<Rec>, 23),                                                                     // 22..=24
        r!((u8, u16)), r!([u8; 3]), r!(Option<u32>), r!(Result<u8, String>), r!(BTreeMap<u8, String>), r!(scale::Compact<u32>), r!(core::ops::Range<u8>), r!(core::time::Duration), r!(G<u16>), r!(Vec<u16>),
        // wrappers of wrappers: their target is itself an alias
        r!(Box<Rc<u8>>, 0), r!(&'static Box<u8>, 0), r!(Arc<String>, 3), r!(Box<Vec<u8>>, 4),
        r!(Quantity<Metres>), r!(Quantity<Feet>), r!(Documented), r!(bitvec::vec::BitVec<u8, bitvec::order::Lsb0>), r!(bitvec::vec::BitVec<u16, bitvec::order::Msb0>), r!([Documented; 5]), r!((Documented, u8, Rec)),
        // the PhantomData placeholder as a type argument / element type: it is a registered type like any other there
        r!(G<PhantomData<u8>>), r!(Option<PhantomData<bool>>), r!(Vec<PhantomData<Rec>>),
    ]
}

pub const NESTED_FROM: usize = 35;
pub const NESTED_TO: usize = 39;

fn snapshot(r: &Registry) -> Vec<(u32, Type<PortableForm>)> { r.types().map(|(k, v)| (k.id, v.clone())).collect() }

fn faithful(pr: &PortableRegistry, id: u32, mt: &MetaType, seen: &mut BTreeMap<TypeId, u32>) -> Result<(), String> {
    if let Some(prev) = seen.get(&mt.type_id()) {
        return if *prev == id { Ok(()) } else { Err(format!("one type identity reached under ids {prev} and {id}")) };
    }
    seen.insert(mt.type_id(), id);
    let p = pr.resolve(id).ok_or(format!("id {id} does not resolve"))?;
    let m: Type<MetaForm> = mt.type_info();
    let s = |v: &[&'static str]| v.iter().map(|x| x.to_string()).collect::<Vec<_>>();
    if s(&m.path.segments) != p.path.segments { return Err(format!("path of {id}")); }
    if s(&m.docs) != p.docs { return Err(format!("docs of {id}")); }
    if m.type_params.len() != p.type_params.len() { return Err(format!("param count of {id}")); }
    for (a, b) in m.type_params.iter().zip(&p.type_params) {
        if a.name != b.name { return Err(format!("param name of {id}")); }
        match (&a.ty, &b.ty) { (Some(x), Some(y)) => faithful(pr, y.id, x, seen)?, (None, None) => {}, _ => return Err(format!("param presence of {id}")) }
    }
    let fields = |ma: &[scale_info::Field<MetaForm>], pa: &[scale_info::Field<PortableForm>], seen: &mut BTreeMap<TypeId, u32>| -> Result<(), String> {
        if ma.len() != pa.len() { return Err(format!("field count of {id}")); }
        for (a, b) in ma.iter().zip(pa) {
            if a.name.map(|x| x.to_string()) != b.name || a.type_name.map(|x| x.to_string()) != b.type_name || s(&a.docs) != b.docs { return Err(format!("field name/type name/docs of {id}")); }
            faithful(pr, b.ty.id, &a.ty, seen)?;
        }
        Ok(())
    };
    match (&m.type_def, &p.type_def) {
        (TypeDef::Composite(a), TypeDef::Composite(b)) => fields(&a.fields, &b.fields, seen)?,
        (TypeDef::Variant(a), TypeDef::Variant(b)) => {
            if a.variants.len() != b.variants.len() { return Err(format!("variant count of {id}")); }
            for (x, y) in a.variants.iter().zip(&b.variants) {
                if x.name != y.name || x.index != y.index || s(&x.docs) != y.docs { return Err(format!("variant name/index/docs of {id}")); }
                fields(&x.fields, &y.fields, seen)?;
            }
        }
        (TypeDef::Sequence(a), TypeDef::Sequence(b)) => faithful(pr, b.type_param.id, &a.type_param, seen)?,
        (TypeDef::Array(a), TypeDef::Array(b)) => { if a.len != b.len { return Err(format!("array len of {id}")); } faithful(pr, b.type_param.id, &a.type_param, seen)? }
        (TypeDef::Tuple(a), TypeDef::Tuple(b)) => {
            if a.fields.len() != b.fields.len() { return Err(format!("tuple arity of {id}")); }
            for (x, y) in a.fields.iter().zip(&b.fields) { faithful(pr, y.id, x, seen)?; }
        }
        (TypeDef::Primitive(a), TypeDef::Primitive(b)) => { if a != b { return Err(format!("primitive of {id}")); } }
        (TypeDef::Compact(a), TypeDef::Compact(b)) => faithful(pr, b.type_param.id, &a.type_param, seen)?,
        (TypeDef::BitSequence(a), TypeDef::BitSequence(b)) => { faithful(pr, b.bit_store_type.id, &a.bit_store_type, seen)?; faithful(pr, b.bit_order_type.id, &a.bit_order_type, seen)? }
        _ => return Err(format!("definition kind of {id}")),
    }
    Ok(())
}

struct Run { ids: Vec<u32>, pr: PortableRegistry, bytes: Vec<u8>, count: usize }

fn run(hist: &[usize], rs: &[Root], fails: &mut Vec<Value>) -> Run {
    COUNT.store(0, Ordering::SeqCst);
    let mut reg = Registry::new();
    let mut first: BTreeMap<usize, u32> = BTreeMap::new();
    let mut by_tid: BTreeMap<TypeId, u32> = BTreeMap::new();
    let mut ids = vec![];
    let mut prev = snapshot(&reg);
    let hs = |h: &[usize]| h.iter().map(|i| rs[*i].name).collect::<Vec<_>>();
    for (step, &ri) in hist.iter().enumerate() {
        let mt = (rs[ri].mt)();
        let before = snapshot(&reg).len();
        let id = reg.register_type(&mt).id;
        ids.push(id);
        let snap = snapshot(&reg);
        if let Some(f) = first.get(&ri) {
            if *f != id || snap.len() != before { fails.push(json!({"law": "dedup", "history": hs(&hist[..=step]), "detail": format!("re-registering {} gave id {id} (first {f}), entries {before}->{}", rs[ri].name, snap.len())})); }
        }
        first.entry(ri).or_insert(id);
        if let Some(o) = by_tid.get(&mt.type_id()) { if *o != id { fails.push(json!({"law": "dedup", "history": hs(&hist[..=step]), "detail": "same identity, two ids"})); } }
        by_tid.insert(mt.type_id(), id);
        for (pid, pty) in &prev {
            if !snap.iter().any(|(i, t)| i == pid && t == pty) { fails.push(json!({"law": "stable", "history": hs(&hist[..=step]), "detail": format!("entry {pid} changed or vanished")})); break; }
        }
        prev = snap;
    }
    // distinct identities never merge
    let tids: Vec<(TypeId, u32)> = by_tid.iter().map(|(a, b)| (*a, *b)).collect();
    for i in 0..tids.len() { for j in i + 1..tids.len() { if tids[i].1 == tids[j].1 { fails.push(json!({"law": "distinct", "history": hs(hist), "detail": "two identities share an id"})); } } }
    // aliases resolve to the id of their target (registered in the same registry afterwards: must not add entries)
    for (&ri, &id) in &first {
        if let Some(t) = rs[ri].alias_of {
            let n0 = snapshot(&reg).len();
            let tid = reg.register_type(&(rs[t].mt)()).id;
            if tid != id { fails.push(json!({"law": if ri >= NESTED_FROM && ri < NESTED_TO { "alias_nested" } else { "alias" }, "history": hs(hist), "detail": format!("{} has id {id} but its target {} has id {tid} (entries {n0}->{})", rs[ri].name, rs[t].name, snapshot(&reg).len())})); }
        }
    }
    let count = COUNT.load(Ordering::SeqCst);
    if count > 1 { fails.push(json!({"law": "eval_once", "history": hs(hist), "detail": format!("type_info() of one type evaluated {count} times")})); }
    let roots_ids: Vec<(usize, u32)> = first.iter().map(|(a, b)| (*a, *b)).collect();
    let pr: PortableRegistry = reg.into();
    if let Err(e) = well_formed(&pr) { fails.push(json!({"law": if e.contains("carries id") { "dense" } else { "closed" }, "history": hs(hist), "detail": e})); }
    for (ri, id) in roots_ids {
        let mut seen = BTreeMap::new();
        if let Err(e) = faithful(&pr, id, &(rs[ri].mt)(), &mut seen) { fails.push(json!({"law": "faithful", "history": hs(hist), "detail": format!("{}: {e}", rs[ri].name)})); }
    }
    let bytes = pr.encode();
    Run { ids, pr, bytes, count }
}

fn iso(a: &PortableRegistry, ia: u32, b: &PortableRegistry, ib: u32, m: &mut BTreeMap<u32, u32>) -> bool {
    if let Some(x) = m.get(&ia) { return *x == ib; }
    m.insert(ia, ib);
    let (ta, tb) = match (a.resolve(ia), b.resolve(ib)) { (Some(x), Some(y)) => (x, y), _ => return false };
    let ra = crate::reg::refs(ta); let rb = crate::reg::refs(tb);
    if ra.len() != rb.len() { return false; }
    for (x, y) in ra.iter().zip(&rb) { if !iso(a, *x, b, *y, m) { return false; } }
    match rename(ta, m) { Some(t) => &t == tb, None => false }
}

pub fn corpus_registries() -> Vec<PortableRegistry> {
    let rs = roots();
    let mut out = vec![];
    let mut reg = Registry::new();
    for r in &rs { reg.register_type(&(r.mt)()); }
    out.push(reg.into());
    for k in [5usize, 8, 11, 39, 40] { let mut reg = Registry::new(); reg.register_type(&(rs[k].mt)()); out.push(reg.into()); }
    out.push(PortableRegistry { types: vec![] });
    out
}

type D4<T> = Option<Option<Option<Option<T>>>>;
type D16<T> = D4<D4<D4<D4<T>>>>;
type D64<T> = D16<D16<D16<D16<T>>>>;
type D256<T> = D64<D64<D64<D64<T>>>>;

/// deeply nested types registered alone: every level gets its entry (depth-dependent conversion: recursion guards, deferred work)
fn deep(fails: &mut Vec<Value>) {
    fn one<T: TypeInfo + 'static>(name: &str, levels: usize, fails: &mut Vec<Value>) {
        let mut reg = Registry::new();
        let id = reg.register_type(&meta_type::<T>()).id;
        let pr: PortableRegistry = reg.into();
        if pr.types.len() != levels + 1 { fails.push(json!({"law": "closed", "history": [name], "detail": format!("{} entries for {} nested types", pr.types.len(), levels + 1)})); return; }
        if let Err(e) = well_formed(&pr) { fails.push(json!({"law": if e.contains("carries id") { "dense" } else { "closed" }, "history": [name], "detail": e})); return; }
        let mut seen = BTreeMap::new();
        if let Err(e) = faithful(&pr, id, &meta_type::<T>(), &mut seen) { fails.push(json!({"law": "faithful", "history": [name], "detail": e})); }
    }
    one::<D16<u8>>("Option^16<u8>", 16, fails);
    one::<D64<D4<u8>>>("Option^68<u8>", 68, fails);
    one::<D64<D64<D4<u8>>>>("Option^132<u8>", 132, fails);
    one::<D256<D4<u8>>>("Option^260<u8>", 260, fails);
}

pub fn battery(seed: u64) -> Value {
    let rs = roots();
    let mut fails: Vec<Value> = vec![];
    deep(&mut fails);
    let mut s = seed.wrapping_mul(6364136223846793005).wrapping_add(1442695040888963407);
    let mut next = move |n: usize| { s = s.wrapping_mul(6364136223846793005).wrapping_add(1442695040888963407); ((s >> 33) as usize) % n };
    let mut histories: Vec<Vec<usize>> = vec![(0..rs.len()).collect(), (0..rs.len()).rev().collect(), vec![11, 11, 5, 11], vec![6, 7, 6], vec![35, 18, 0], vec![18, 35], vec![38, 14, 4]];
    // every root registered again once the table is large (table-size dependent behaviour), in both orders
    histories.push((0..rs.len()).chain(0..rs.len()).collect());
    histories.push((0..rs.len()).rev().chain(0..rs.len()).collect());
    for _ in 0..24 { let len = 1 + next(10); histories.push((0..len).map(|_| next(rs.len())).collect()); }
    let n = histories.len();
    for h in &histories {
        let r1 = run(h, &rs, &mut fails);
        let mut dummy = vec![];
        let r2 = run(h, &rs, &mut dummy);
        if r1.bytes != r2.bytes || r1.ids != r2.ids { fails.push(json!({"law": "replay", "history": h.iter().map(|i| rs[*i].name).collect::<Vec<_>>(), "detail": "same history, different bytes"})); }
        // permutation of the distinct roots
        let mut roots_h: Vec<usize> = h.clone(); roots_h.sort(); roots_h.dedup();
        let mut perm = roots_h.clone();
        for i in (1..perm.len()).rev() { let j = next(i + 1); perm.swap(i, j); }
        let a = run(&roots_h, &rs, &mut dummy); let b = run(&perm, &rs, &mut dummy);
        let mut m = BTreeMap::new();
        let mut ok = a.pr.types.len() == b.pr.types.len();
        for (i, ri) in roots_h.iter().enumerate() {
            let jb = perm.iter().position(|x| x == ri).unwrap();
            ok &= iso(&a.pr, a.ids[i], &b.pr, b.ids[jb], &mut m);
        }
        let vals: std::collections::BTreeSet<u32> = m.values().copied().collect();
        ok &= vals.len() == m.len();
        if !ok { fails.push(json!({"law": "permutation", "history": perm.iter().map(|i| rs[*i].name).collect::<Vec<_>>(), "detail": "registries of two orders are not isomorphic under an id renaming"})); }
    }
    fails.truncate(40);
    json!({"histories": n, "failed": fails})
}
