//! Further replay operations (grown per property).
use scale_info::{form::PortableForm, Path};
use serde_json::{json, Value};

pub fn handle(op: &str, cmd: &Value) -> Value {
    match op {
        "path_accessors" => {
            let n = cmd["n"].as_u64().unwrap() as usize;
            let segs: Vec<String> = (0..n).map(|i| format!("s{i}")).collect();
            let p: Path<PortableForm> = Path::from_segments_unchecked(segs.clone());
            let ok_empty = p.is_empty() == (n == 0);
            let ok_ident = p.ident() == segs.last().cloned();
            let ok_ns = p.namespace() == &segs[..n.saturating_sub(1)];
            let ok_disp = format!("{p}") == segs.join("::");
            json!({"all_ok": ok_empty && ok_ident && ok_ns && ok_disp, "is_empty": ok_empty, "ident": ok_ident, "namespace": ok_ns, "display": ok_disp})
        }
        _ => json!({"error": format!("unknown op {op}")}),
    }
}
