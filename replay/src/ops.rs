//! Further replay operations (grown per property).
use scale_info::{form::PortableForm, interner::Interner, Path, PortableRegistryBuilder, Type, TypeDefPrimitive};
use serde_json::{json, Value};

fn ty_of(i: u64) -> Type<PortableForm> {
    Type::new(Path::from_segments_unchecked(vec![format!("T{i}")]), vec![], TypeDefPrimitive::U8, vec![])
}

fn ty_index(t: &Type<PortableForm>) -> u64 {
    t.path.segments[0][1..].parse().unwrap()
}

fn table_step(cmd: &Value) -> Value {
    let pre: Vec<u64> = cmd["pre"].as_array().unwrap().iter().map(|x| x.as_u64().unwrap()).collect();
    let arg = cmd["arg"].as_u64().unwrap();
    let sym = cmd["sym"].as_u64().unwrap();
    let step = cmd["step"].as_str().unwrap();
    if cmd["kind"] == "interner" {
        let mut it: Interner<u64> = Interner::new();
        for (i, v) in pre.iter().enumerate() {
            let (ins, s) = it.intern_or_get(*v);
            if !ins || s.into_untracked().id as usize != i {
                return json!({"setup_failed": true});
            }
        }
        let mut big: Interner<u64> = Interner::new();
        for i in 0..=sym {
            big.intern_or_get(100_000 + i);
        }
        let after = |it: &Interner<u64>| it.elements().to_vec();
        match step {
            "intern_or_get" => {
                let (ins, s) = it.intern_or_get(arg);
                let id = s.into_untracked().id;
                json!({"inserted": ins, "id": id, "after": after(&it)})
            }
            "get" => {
                let r = it.get(&arg).map(|s| s.into_untracked().id);
                json!({"id": r, "after": after(&it)})
            }
            "resolve" => {
                let s = big.intern_or_get(100_000 + sym).1;
                let r = it.resolve(s).copied();
                json!({"value": r, "after": after(&it)})
            }
            _ => json!({"error": "step"}),
        }
    } else {
        let mut b = PortableRegistryBuilder::new();
        for (i, v) in pre.iter().enumerate() {
            if b.register_type(ty_of(*v)) as usize != i {
                return json!({"setup_failed": true});
            }
        }
        let after = |b: &PortableRegistryBuilder| b.finish().types.iter().map(|t| ty_index(&t.ty)).collect::<Vec<_>>();
        match step {
            "register_type" => {
                let next = b.next_type_id();
                let id = b.register_type(ty_of(arg));
                json!({"id": id, "next_before": next, "after": after(&b)})
            }
            "next_type_id" => json!({"id": b.next_type_id(), "after": after(&b)}),
            "builder_get" => json!({"value": b.get(sym as u32).map(ty_index), "after": after(&b)}),
            _ => json!({"error": "step"}),
        }
    }
}

pub fn handle(op: &str, cmd: &Value) -> Value {
    match op {
        "path_accessors" => {
            let n = cmd["n"].as_u64().unwrap() as usize;
            let segs: Vec<String> = (0..n).map(|i| format!("s{i}")).collect();
            let p: Path<PortableForm> = Path::from_segments_unchecked(segs.clone());
            let ok_empty = p.is_empty() == (n == 0);
            let ok_ident = p.ident() == segs.last().cloned();
            let ok_ns = p.namespace() == &segs[..n.saturating_sub(1)];
            let ok_disp = format!("{p}") == segs.join("::");
            json!({"all_ok": ok_empty && ok_ident && ok_ns && ok_disp, "is_empty": ok_empty, "ident": ok_ident, "namespace": ok_ns, "display": ok_disp})
        }
        "table_step" => table_step(cmd),
        "builder_laws" => crate::builders::battery(),
        "registry_laws" => crate::laws::battery(cmd["seed"].as_u64().unwrap_or(0)),
        "metatype_laws" => crate::meta::laws(),
        "retain" => {
            let keep: Vec<bool> = cmd["keep"].as_array().unwrap().iter().map(|b| b.as_bool().unwrap()).collect();
            crate::reg::retain_oracle(&cmd["types"], &keep)
        }
        "builder_finish" => {
            let n = cmd["n"].as_u64().unwrap();
            let mut b = PortableRegistryBuilder::new();
            for i in 0..n {
                b.register_type(ty_of(i));
            }
            let r = b.finish();
            let ok = r.types.len() as u64 == n && r.types.iter().enumerate().all(|(i, t)| t.id as usize == i && ty_index(&t.ty) == i as u64);
            json!({"ok": ok})
        }
        "interner_history" => {
            let vals: Vec<u64> = cmd["values"].as_array().unwrap().iter().map(|x| x.as_u64().unwrap()).collect();
            let mut it: Interner<u64> = Interner::new();
            let mut model: Vec<u64> = vec![];
            let mut ok = true;
            for v in &vals {
                let (ins, s) = it.intern_or_get(*v);
                let id = s.into_untracked().id as usize;
                match model.iter().position(|m| m == v) {
                    Some(p) => ok &= !ins && id == p,
                    None => {
                        model.push(*v);
                        ok &= ins && id == model.len() - 1
                    }
                }
            }
            ok &= it.elements() == &model[..];
            json!({"ok": ok})
        }
        _ => json!({"error": format!("unknown op {op}")}),
    }
}
