//! Further replay operations (grown per property).
use scale_info::{form::PortableForm, interner::Interner, Path, PortableRegistryBuilder, Type, TypeDefPrimitive};
use serde_json::{json, Value};

fn ty_of(i: u64) -> Type<PortableForm> {
    Type::new(Path::from_segments_unchecked(vec![format!("T{i:06}")]), vec![], TypeDefPrimitive::U8, vec![])
}

fn ty_index(t: &Type<PortableForm>) -> u64 {
    t.path.segments[0][1..].parse().unwrap()
}

fn table_step(cmd: &Value) -> Value {
    let pre: Vec<u64> = cmd["pre"].as_array().unwrap().iter().map(|x| x.as_u64().unwrap()).collect();
    let arg = cmd["arg"].as_u64().unwrap();
    let sym = cmd["sym"].as_u64().unwrap();
    let step = cmd["step"].as_str().unwrap();
    if cmd["kind"] == "interner" {
        let mut it: Interner<u64> = Interner::new();
        for (i, v) in pre.iter().enumerate() {
            let (ins, s) = it.intern_or_get(*v);
            if !ins || s.into_untracked().id as usize != i {
                return json!({"setup_failed": true});
            }
        }
        let mut big: Interner<u64> = Interner::new();
        for i in 0..=sym {
            big.intern_or_get(100_000 + i);
        }
        let after = |it: &Interner<u64>| it.elements().to_vec();
        match step {
            "intern_or_get" => {
                let (ins, s) = it.intern_or_get(arg);
                let id = s.into_untracked().id;
                json!({"inserted": ins, "id": id, "after": after(&it)})
            }
            "get" => {
                let r = it.get(&arg).map(|s| s.into_untracked().id);
                json!({"id": r, "after": after(&it)})
            }
            "resolve" => {
                let s = big.intern_or_get(100_000 + sym).1;
                let r = it.resolve(s).copied();
                json!({"value": r, "after": after(&it)})
            }
            _ => json!({"error": "step"}),
        }
    } else {
        let mut b = PortableRegistryBuilder::new();
        for (i, v) in pre.iter().enumerate() {
            if b.register_type(ty_of(*v)) as usize != i {
                return json!({"setup_failed": true});
            }
        }
        let after = |b: &PortableRegistryBuilder| b.finish().types.iter().map(|t| ty_index(&t.ty)).collect::<Vec<_>>();
        match step {
            "register_type" => {
                let next = b.next_type_id();
                let id = b.register_type(ty_of(arg));
                json!({"id": id, "next_before": next, "after": after(&b)})
            }
            "next_type_id" => json!({"id": b.next_type_id(), "after": after(&b)}),
            "builder_get" => json!({"value": b.get(sym as u32).map(ty_index), "after": after(&b)}),
            _ => json!({"error": "step"}),
        }
    }
}

pub fn handle(op: &str, cmd: &Value) -> Value {
    match op {
        "path_accessors" => {
            let n = cmd["n"].as_u64().unwrap() as usize;
            let segs: Vec<String> = (0..n).map(|i| format!("s{i}")).collect();
            let p: Path<PortableForm> = Path::from_segments_unchecked(segs.clone());
            let ok_empty = p.is_empty() == (n == 0);
            let ok_ident = p.ident() == segs.last().cloned();
            let ok_ns = p.namespace() == &segs[..n.saturating_sub(1)];
            let ok_disp = format!("{p}") == segs.join("::");
            json!({"all_ok": ok_empty && ok_ident && ok_ns && ok_disp, "is_empty": ok_empty, "ident": ok_ident, "namespace": ok_ns, "display": ok_disp})
        }
        "table_step" => table_step(cmd),
        "json_decode" => {
            let r: Result<scale_info::PortableRegistry, _> = serde_json::from_value(cmd["json"].clone());
            json!({"ok": r.is_ok()})
        }
        "builder_history" => {
            // pattern[i] = index (in the list model) of the value registered at step i
            let pat: Vec<u64> = cmd["pattern"].as_array().unwrap().iter().map(|x| x.as_u64().unwrap()).collect();
            // order[j] = which value (in the order of Ord) the j-th distinct value is; identity if absent
            let order: Option<Vec<u64>> = cmd["order"].as_array().map(|a| a.iter().map(|x| x.as_u64().unwrap()).collect());
            let val = |p: u64| order.as_ref().and_then(|o| o.get(p as usize).copied()).unwrap_or(p);
            let mut b = PortableRegistryBuilder::new();
            let mut ok = true; let mut n = 0u64;
            for p in &pat {
                ok &= b.next_type_id() as u64 == n;
                let id = b.register_type(ty_of(val(*p))) as u64;
                ok &= id == *p;
                if *p == n { n += 1; }
            }
            // the announced id after the last step too (a re-registration as the last step must not move it)
            ok &= b.next_type_id() as u64 == n;
            for i in 0..n { ok &= b.get(i as u32).map(ty_index) == Some(val(i)); }
            ok &= b.get(n as u32).is_none();
            let r = b.finish();
            ok &= r.types.len() as u64 == n && r.types.iter().enumerate().all(|(i, t)| t.id as usize == i && ty_index(&t.ty) == val(i as u64));
            json!({"ok": ok})
        }
        "corpus_bytes_nodocs" => {
            use scale::Encode;
            use std::hash::{Hash, Hasher};
            let mut h = std::collections::hash_map::DefaultHasher::new();
            let mut total = 0usize;
            for mut r in crate::laws::corpus_registries() {
                for t in r.types.iter_mut() {
                    t.ty.docs.clear();
                    match &mut t.ty.type_def {
                        scale_info::TypeDef::Composite(c) => for f in c.fields.iter_mut() { f.docs.clear() },
                        scale_info::TypeDef::Variant(v) => for x in v.variants.iter_mut() { x.docs.clear(); for f in x.fields.iter_mut() { f.docs.clear() } },
                        _ => {}
                    }
                }
                let b = r.encode(); total += b.len(); b.hash(&mut h);
            }
            json!({"sha": format!("{:016x}-{}", h.finish(), total)})
        }
        "corpus_native" => {
            let r = match cmd["tag"].as_str().unwrap_or("") { "c03" => crate::c03_gen::native_all(cmd["rounds"].as_u64().unwrap_or(300) as usize, cmd["seed"].as_u64().unwrap_or(1)),
                "c04" => crate::c04_gen::native_all(cmd["rounds"].as_u64().unwrap_or(300) as usize, cmd["seed"].as_u64().unwrap_or(1)), _ => vec![] };
            json!({"failed": r.iter().filter(|x| x.1 > 0).map(|x| json!({"harness": x.0, "bad": x.1})).collect::<Vec<_>>(), "roots": r.len()})
        }
        "dump_corpus" => {
            let roots = match cmd["tag"].as_str().unwrap_or("") { "c03" => crate::corpus_c03::roots(), "c04" => { let mut r = crate::corpus_c04::roots(); r.extend(crate::corpus_c04::shape_roots()); r } _ => vec![] };
            let mut m = serde_json::Map::new();
            for (name, mt) in roots {
                let mut reg = scale_info::Registry::new();
                let id = reg.register_type(&mt).id;
                let pr: scale_info::PortableRegistry = reg.into();
                m.insert(name.to_string(), json!({"root": id, "types": crate::reg::registry_to_json(&pr)}));
            }
            Value::Object(m)
        }
        "json_shape" => crate::jsonref::judge(&crate::reg::registry_from_json(&cmd["types"])),
        "json_battery" => {
            let mut bad = vec![]; let mut n = 0;
            for r in crate::laws::corpus_registries() { n += 1; let j = crate::jsonref::judge(&r); if j["shape_ok"] != true || j["roundtrip_ok"] != true { bad.push(format!("registry with {} types: shape {} roundtrip {}", r.types.len(), j["shape_ok"], j["roundtrip_ok"])); } }
            json!({"failed": bad, "cases": n})
        }
        "layout_battery" => {
            // the reference encoder/decoder against the library on the registries of the law corpus and hand-made corner cases
            use scale::{Decode, Encode};
            let mut bad: Vec<String> = vec![];
            let mut n = 0;
            let mut regs: Vec<scale_info::PortableRegistry> = crate::laws::corpus_registries();
            for id in [0u32, 63, 64, 16383, 16384, (1 << 30) - 1, 1 << 30, u32::MAX] {
                let t = Type::new(Path::from_segments_unchecked(vec!["p".to_string()]), vec![scale_info::TypeParameter::new_portable("T".into(), Some(id.into()))], scale_info::TypeDefArray::new(id, id.into()), vec!["d".to_string()]);
                regs.push(scale_info::PortableRegistry { types: vec![scale_info::PortableType::new(id, t)] });
            }
            for r in &regs {
                n += 1;
                let lib = r.encode();
                if crate::v14::encode_registry(r) != lib { bad.push(format!("encoder differs on registry with {} types", r.types.len())); }
                let mut rd = crate::v14::Rd { b: &lib, p: 0 };
                if rd.registry().as_ref() != Some(r) || rd.p != lib.len() { bad.push(format!("reference decoder differs on registry with {} types", r.types.len())); }
                if scale_info::PortableRegistry::decode(&mut &lib[..]).ok().as_ref() != Some(r) { bad.push("library decoder differs".to_string()); }
            }
            bad.truncate(8);
            json!({"failed": bad, "cases": n})
        }
        "decode_bytes" => {
            use scale::{Decode, Encode};
            let bytes: Vec<u8> = cmd["bytes"].as_array().unwrap().iter().map(|b| b.as_u64().unwrap() as u8).collect();
            fn go<T: Decode + Encode>(bytes: &[u8]) -> Value {
                let mut inp = bytes;
                crate::MAX_REQ.store(0, std::sync::atomic::Ordering::Relaxed);
                let r = T::decode(&mut inp);
                let max_alloc = crate::MAX_REQ.load(std::sync::atomic::Ordering::Relaxed);
                match r {
                    Ok(v) => { let used = bytes.len() - inp.len(); json!({"decoded": true, "consumed": used, "canonical": v.encode() == bytes[..used], "max_alloc": max_alloc}) }
                    Err(_) => json!({"decoded": false, "max_alloc": max_alloc}),
                }
            }
            use scale_info::{form::PortableForm as P, *};
            match cmd["entry"].as_str().unwrap() {
                "PortableRegistry" => go::<PortableRegistry>(&bytes), "PortableType" => go::<PortableType>(&bytes), "Type" => go::<Type<P>>(&bytes), "TypeDef" => go::<TypeDef<P>>(&bytes),
                "Field" => go::<Field<P>>(&bytes), "Variant" => go::<Variant<P>>(&bytes), "TypeParameter" => go::<TypeParameter<P>>(&bytes), "Path" => go::<Path<P>>(&bytes),
                other => json!({"error": format!("entry {other}")}),
            }
        }
        "resolve" => {
            let n = cmd["n"].as_u64().unwrap();
            let id = cmd["id"].as_u64().unwrap() as u32;
            let mut b = PortableRegistryBuilder::new();
            for i in 0..n { b.register_type(ty_of(i)); }
            let mut r = b.finish();
            if let Some(f) = cmd["id_fields"].as_array() { for (t, v) in r.types.iter_mut().zip(f) { t.id = v.as_u64().unwrap() as u32; } }
            let got = r.resolve(id).map(ty_index);
            let want = if (id as u64) < n { Some(id as u64) } else { None };
            json!({"ok": got == want})
        }
        "codec_roundtrip" => {
            use scale::{Decode, Encode};
            let reg = crate::reg::registry_from_json(&cmd["types"]);
            let bytes = reg.encode();
            let mut inp = &bytes[..];
            let back = scale_info::PortableRegistry::decode(&mut inp);
            let roundtrip_ok = matches!(&back, Ok(r) if *r == reg) && inp.is_empty();
            let ref_bytes = crate::v14::encode_registry(&reg);
            let mut rd = crate::v14::Rd { b: &bytes, p: 0 };
            let ref_back = rd.registry();
            let ref_decode_ok = matches!(&ref_back, Some(r) if *r == reg) && rd.p == bytes.len();
            let lib_of_ref = scale_info::PortableRegistry::decode(&mut &ref_bytes[..]);
            json!({"bytes": bytes, "roundtrip_ok": roundtrip_ok, "ref_encode_ok": ref_bytes == bytes, "ref_decode_ok": ref_decode_ok && matches!(&lib_of_ref, Ok(r) if *r == reg), "ref_bytes": ref_bytes})
        }
        "codec_lengths" => {
            // a registry holding one type whose vectors have the requested lengths (length-abstraction counterexamples)
            use scale::{Decode, Encode};
            use scale_info::{Field, Variant, TypeDefComposite, TypeDefVariant, TypeDefTuple, TypeDefSequence, TypeDefArray, TypeDefCompact, TypeDefBitSequence, TypeParameter, TypeDef, PortableType, PortableRegistry};
            let l = |k: &str| cmd["lens"][k].as_u64().unwrap_or(0) as usize;
            let idv = cmd["id"].as_u64().unwrap_or(0) as u32;
            if cmd["lens"].as_object().map(|o| o.values().any(|v| v.as_u64().unwrap_or(0) > (1 << 21))).unwrap_or(false) { return json!({"too_large": true, "roundtrip_ok": true, "ref_encode_ok": true}); }
            let strs = |n: usize| (0..n).map(|i| format!("d{i}")).collect::<Vec<String>>();
            let field = |docs: usize| Field::<PortableForm>::new(Some("f".to_string()), idv.into(), Some("T".to_string()), strs(docs));
            let variant = |i: usize, nf: usize, nd: usize| Variant::<PortableForm>::new(format!("V{i}"), (0..nf).map(|_| field(0)).collect(), (i % 256) as u8, strs(nd));
            let entry = cmd["entry"].as_str().unwrap();
            let def: TypeDef<PortableForm> = match (entry, cmd["defkind"].as_u64().unwrap_or(0)) {
                ("Field", _) => TypeDefComposite::new(vec![field(l("field.docs"))]).into(),
                ("Variant", _) => TypeDefVariant::new(vec![variant(0, l("variant.fields"), l("variant.docs"))]).into(),
                (_, 0) => TypeDefComposite::new((0..l("composite.fields")).map(|_| field(0))).into(),
                (_, 1) => TypeDefVariant::new((0..l("variant.variants")).map(|i| variant(i, 0, 0))).into(),
                (_, 2) => TypeDefSequence::new(idv.into()).into(),
                (_, 3) => TypeDefArray::new(3, idv.into()).into(),
                (_, 4) => TypeDefTuple::new_portable((0..l("tuple.fields")).map(|_| idv.into())).into(),
                (_, 6) => TypeDefCompact::new(idv.into()).into(),
                (_, 7) => TypeDefBitSequence::new_portable(idv.into(), idv.into()).into(),
                _ => TypeDefPrimitive::U8.into(),
            };
            let t = Type::new(Path::from_segments_unchecked(strs(if entry == "Type" { l("path.segments") } else { 1 })), (0..if entry == "Type" { l("type.type_params") } else { 0 }).map(|i| TypeParameter::new_portable(format!("P{i}"), None)).collect::<Vec<_>>(), def, strs(if entry == "Type" { l("type.docs") } else { 0 }));
            let n = if entry == "PortableRegistry" { l("registry.types") } else { 1 };
            let reg = PortableRegistry { types: (0..n).map(|i| PortableType::new(i as u32, if i == 0 { t.clone() } else { ty_of(i as u64) })).collect() };
            let bytes = reg.encode();
            let back = PortableRegistry::decode(&mut &bytes[..]);
            json!({"roundtrip_ok": matches!(&back, Ok(r) if *r == reg), "ref_encode_ok": crate::v14::encode_registry(&reg) == bytes, "nbytes": bytes.len()})
        }
        "builder_laws" => crate::builders::battery(),
        "registry_laws" => crate::laws::battery(cmd["seed"].as_u64().unwrap_or(0)),
        "metatype_laws" => crate::meta::laws(),
        "identity_probe" => crate::meta::identity_probe(),
        "retain" => {
            let keep: Vec<bool> = cmd["keep"].as_array().unwrap().iter().map(|b| b.as_bool().unwrap()).collect();
            crate::reg::retain_oracle(&cmd["types"], &keep)
        }
        "builder_finish" => {
            let n = cmd["n"].as_u64().unwrap();
            let mut b = PortableRegistryBuilder::new();
            for i in 0..n {
                b.register_type(ty_of(i));
            }
            let r = b.finish();
            let ok = r.types.len() as u64 == n && r.types.iter().enumerate().all(|(i, t)| t.id as usize == i && ty_index(&t.ty) == i as u64);
            json!({"ok": ok})
        }
        "interner_history" => {
            let vals: Vec<u64> = cmd["values"].as_array().unwrap().iter().map(|x| x.as_u64().unwrap()).collect();
            let mut it: Interner<u64> = Interner::new();
            let mut model: Vec<u64> = vec![];
            let mut ok = true;
            for v in &vals {
                let (ins, s) = it.intern_or_get(*v);
                let id = s.into_untracked().id as usize;
                match model.iter().position(|m| m == v) {
                    Some(p) => ok &= !ins && id == p,
                    None => {
                        model.push(*v);
                        ok &= ins && id == model.len() - 1
                    }
                }
            }
            ok &= it.elements() == &model[..];
            for (i, m) in model.iter().enumerate() {
                ok &= it.get(m).map(|s| s.into_untracked().id as usize) == Some(i);
                ok &= it.resolve(it.get(m).unwrap()) == Some(m);
            }
            for absent in 0..=(vals.iter().max().copied().unwrap_or(0) + 1) {
                if !model.contains(&absent) { ok &= it.get(&absent).is_none(); }
            }
            json!({"ok": ok})
        }
        _ => json!({"error": format!("unknown op {op}")}),
    }
}
