//! Native builder battery (confirmation for C17): types assembled through the builders vs. the same types assembled with the plain constructors.
use scale_info::{
    build::{Fields, Variants}, form::{MetaForm, PortableForm}, meta_type, Field, Path, Type, TypeDefComposite, TypeDefTuple, TypeDefVariant, TypeParameter, Variant,
};
use serde_json::{json, Value};
use std::marker::PhantomData;

fn d(gated: &[&'static str]) -> Vec<&'static str> {
    if cfg!(feature = "docs") { gated.to_vec() } else { vec![] }
}

pub fn battery() -> Value {
    let mut bad: Vec<&str> = vec![];
    let mut n = 0;
    let mut check = |name: &'static str, ok: bool| { n += 1; if !ok { bad.push(name); } };
    let p = || Path::new("T", "a::b");
    // struct with named fields, a PhantomData member in the middle, docs gated and always
    let got = Type::builder().docs(&["gated"]).path(p()).type_params(vec![TypeParameter::new("X", Some(meta_type::<u8>())), TypeParameter::new("Y", None)]).composite(
        Fields::named()
            .field(|f| f.ty::<u8>().name("a").type_name("u8").docs_always(&["always a"]))
            .field(|f| f.name("ph").ty::<PhantomData<String>>().type_name("PhantomData<String>"))
            .field(|f| f.type_name("Vec<u16>").docs(&["gated b"]).name("b").ty::<Vec<u16>>())
            .field(|f| f.compact::<u32>().name("c")),
    );
    let want: Type<MetaForm> = Type::new(
        p(),
        vec![TypeParameter::new("X", Some(meta_type::<u8>())), TypeParameter::new("Y", None)],
        TypeDefComposite::new(vec![
            Field::new(Some("a"), meta_type::<u8>(), Some("u8"), vec!["always a"]),
            Field::new(Some("b"), meta_type::<Vec<u16>>(), Some("Vec<u16>"), d(&["gated b"])),
            Field::new(Some("c"), meta_type::<scale::Compact<u32>>(), None, vec![]),
        ]),
        d(&["gated"]),
    );
    check("named struct", got == want);
    // tuple struct, phantom first and last, docs_always on the type, type_params set twice (second wins)
    let got = Type::builder().path(p()).type_params(vec![TypeParameter::new("A", None)]).type_params(vec![TypeParameter::new("B", None)]).docs_always(&["d1", "d2"]).composite(
        Fields::unnamed().field(|f| f.ty::<PhantomData<u8>>()).field(|f| f.ty::<bool>().type_name("bool")).field(|f| f.ty::<[u8; 4]>().docs(&["g"])).field(|f| f.ty::<PhantomData<()>>().type_name("PhantomData<()>")),
    );
    let want: Type<MetaForm> = Type::new(p(), vec![TypeParameter::new("B", None)], TypeDefComposite::new(vec![Field::new(None, meta_type::<bool>(), Some("bool"), vec![]), Field::new(None, meta_type::<[u8; 4]>(), None, d(&["g"]))]), vec!["d1", "d2"]);
    check("tuple struct", got == want);
    // every setter of the path-less state before path(..): nothing set early may be lost
    let got = Type::builder().type_params(vec![TypeParameter::new("X", Some(meta_type::<u16>())), TypeParameter::new("Y", None)]).docs_always(&["early 1", "early 2"]).path(p()).composite(Fields::unit());
    check("params and docs before path (composite)", got == Type::new(p(), vec![TypeParameter::new("X", Some(meta_type::<u16>())), TypeParameter::new("Y", None)], TypeDefComposite::new(Vec::<Field>::new()), vec!["early 1", "early 2"]));
    let got = Type::builder().docs_always(&["early"]).type_params(vec![TypeParameter::new("Z", None)]).path(p()).variant(Variants::new().variant_unit("U", 1));
    check("params and docs before path (variant)", got == Type::new(p(), vec![TypeParameter::new("Z", None)], TypeDefVariant::new(vec![Variant::new("U", vec![], 1, vec![])]), vec!["early"]));
    let got = Type::builder().path(p()).docs_always(&["late"]).type_params(vec![TypeParameter::new("Z", None)]).composite(Fields::unit());
    check("params and docs after path", got == Type::new(p(), vec![TypeParameter::new("Z", None)], TypeDefComposite::new(Vec::<Field>::new()), vec!["late"]));
    check("unit struct", Type::builder().path(p()).composite(Fields::unit()) == Type::new(p(), vec![], TypeDefComposite::new(Vec::<Field>::new()), vec![]));
    // enum: indices, discriminant, unit variants, fields set twice, docs
    let got = Type::builder().path(p()).variant(
        Variants::new()
            .variant("A", |v| v.docs(&["ga"]).index(9).discriminant(77).fields(Fields::named().field(|f| f.ty::<u8>().name("x")).field(|f| f.ty::<PhantomData<u8>>().name("p"))))
            .variant_unit("B", 200)
            .variant("C", |v| v.fields(Fields::unnamed().field(|f| f.ty::<u8>())).fields(Fields::unnamed().field(|f| f.ty::<u16>()).field(|f| f.ty::<u32>())).index(0).docs_always(&["c1"])),
    );
    let want: Type<MetaForm> = Type::new(
        p(), vec![],
        TypeDefVariant::new(vec![
            Variant::new("A", vec![Field::new(Some("x"), meta_type::<u8>(), None, vec![])], 9, d(&["ga"])),
            Variant::new("B", vec![], 200, vec![]),
            Variant::new("C", vec![Field::new(None, meta_type::<u16>(), None, vec![]), Field::new(None, meta_type::<u32>(), None, vec![])], 0, vec!["c1"]),
        ]),
        vec![],
    );
    check("enum", got == want);
    // tuple definition: phantom members erased, order kept
    let t = TypeDefTuple::new(vec![meta_type::<PhantomData<u8>>(), meta_type::<u8>(), meta_type::<PhantomData<u16>>(), meta_type::<u16>(), meta_type::<u8>()]);
    check("tuple def", t.fields == vec![meta_type::<u8>(), meta_type::<u16>(), meta_type::<u8>()]);
    check("built-in tuple impl", <(u8, PhantomData<u8>, u16) as scale_info::TypeInfo>::type_info() == <(u8, u16) as scale_info::TypeInfo>::type_info());
    // portable builders never filter and keep everything
    let pp = || Path::<PortableForm>::from_segments_unchecked(vec!["a".to_string(), "T".to_string()]);
    let got = Type::builder_portable().path(pp()).type_params(vec![TypeParameter::new_portable("X".into(), Some(3.into()))]).composite(
        Fields::named().field_portable(|f| f.name("a".into()).ty(1u32).type_name("u8".into())).field_portable(|f| f.ty(2u32).name("b".into())),
    );
    let want: Type<PortableForm> = Type::new(
        pp(), vec![TypeParameter::new_portable("X".into(), Some(3.into()))],
        TypeDefComposite::new(vec![Field::new(Some("a".to_string()), 1.into(), Some("u8".to_string()), vec![]), Field::new(Some("b".to_string()), 2.into(), None, vec![])]), vec![],
    );
    check("portable struct", got == want);
    json!({"failed": bad, "cases": n, "docs_feature": cfg!(feature = "docs")})
}
